#!/bin/bash
# usage: tools/seed_matrix.sh [tier] [seed-id ...]
# Applies each kept seed to a scratch worktree of /repo's HEAD (outside /repo and /verif), runs the
# check of its property (and of also_checked_by) against that tree, reverts. /repo itself and the
# committed evidence files are left untouched. The worktree is removed at the end.
cd /verif
tier=${1:-quick}; shift
seeds=${@:-$(ls seeded)}
WT=${SEED_WT:-/tmp/seedrepo_$$}
git -C /repo worktree add --detach -f "$WT" HEAD >/dev/null 2>&1 || { echo "cannot create worktree $WT"; exit 2; }
trap 'git -C /repo worktree remove --force "$WT" >/dev/null 2>&1' EXIT
export VERIF_REPO="$WT"
for sd in $seeds; do
  prop=$(python3 -c "import json;print(json.load(open('seeded/$sd/meta.json'))['property'])")
  also=$(python3 -c "import json;print(' '.join(json.load(open('seeded/$sd/meta.json')).get('also_checked_by',[])))")
  if ! git -C "$WT" apply --check /verif/seeded/$sd/patch.diff 2>/dev/null; then echo "$sd: PATCH DOES NOT APPLY"; continue; fi
  git -C "$WT" apply /verif/seeded/$sd/patch.diff
  res=""
  for p in $prop $also; do
    [ -f evidence/$p.json ] && cp evidence/$p.json /tmp/ev_$p.$$.bak
    out=$(VERIF_NO_WITNESS=1 bin/check $p $tier 2>&1); r=$?
    n=$(echo "$out" | grep -c "^VIOLATION")
    res="$res $p:exit=$r,violations=$n"
    [ -f /tmp/ev_$p.$$.bak ] && mv /tmp/ev_$p.$$.bak evidence/$p.json
  done
  git -C "$WT" checkout -- . ; git -C "$WT" clean -fdq
  echo "$sd:$res"
done
