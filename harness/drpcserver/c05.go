package drpcserver

import (
	"storj.io/drpc/drpcmanager"
	"storj.io/drpc/drpcwire"
	vrt "storj.io/drpc/internal/verifrt"
	"storj.io/drpc/internal/verifrt/hx"
)

// VerifH_ServerWriteFault: the server's transport fails on the write side only (the k-th
// and every later write return an error; reads stay healthy and the client keeps waiting).
// The handler's reply or the stream's closing packet cannot be written: ServeOne must
// return an error and tear the connection down (transport closed exactly once) instead of
// going on to serve a connection it cannot answer on.
func VerifH_ServerWriteFault() {
	tr := &hx.Transport{WriteOnlyFault: true}
	k := vrt.Int("k")
	vrt.Assume(k >= 1 && k <= 3)
	tr.FaultWrite = k
	wsize := 0
	if vrt.Bool("tinyWriterBuffer") {
		wsize = 1
	}
	h := &paramHandler{k: 1, respond: vrt.Bool("respond"), fail: vrt.Bool("fail"), closeSendFirst: vrt.Bool("closeSendFirst")}
	srv := NewWithOptions(h, Options{Manager: drpcmanager.Options{WriterBufferSize: wsize}})
	tr.Feed(hx.Pkt(drpcwire.KindInvoke, 1, 1, false, []byte("rpc")))
	tr.Feed(hx.Pkt(drpcwire.KindMessage, 1, 2, false, []byte{9}))
	tr.Feed(hx.Pkt(drpcwire.KindCloseSend, 1, 3, false, nil))
	var serveErr error
	done := false
	go func() { serveErr = srv.ServeOne(hx.NewCtx(), tr); done = true }()
	vrt.Quiesce()
	vrt.Assert(h.served == 1, "the RPC reaches its handler")
	if tr.WDead {
		// the library itself writes the stream's closing packet (CloseSend or the error
		// reply) after the handler returns, unless the handler already half-closed the
		// stream itself (then the closing write may have been the handler's own, which was
		// told about the failure, and the server notices the dead connection on its read side).
		libraryWrites := !h.closeSendFirst
		vrt.Tag("only-handler-issued-writes-failed", !libraryWrites)
		if libraryWrites {
			vrt.Assert(done, "ServeOne returns when its own write to the connection fails")
			vrt.Assert(serveErr != nil, "ServeOne reports the failure")
			vrt.Assert(tr.Closes == 1, "the connection is torn down: transport closed exactly once")
		}
		if !done {
			// the read side of the broken connection fails a little later
			tr.EOF = true
			tr.CanRead = true
			vrt.Quiesce()
			vrt.Assert(done, "ServeOne returns once the read side of the broken connection fails")
			vrt.Assert(tr.Closes == 1, "transport closed exactly once")
		}
		vrt.Assert(vrt.Unfinished() == 0, "no goroutine is left behind")
		vrt.Cover("server-write-fault-hit")
	} else {
		// the fault lies beyond what this RPC writes: the server is waiting for the next RPC
		vrt.Assert(!done, "without a failure the server keeps serving")
		tr.Close()
		vrt.Quiesce()
		vrt.Assert(done, "ServeOne returns when the transport is closed")
		vrt.Cover("server-write-fault-not-reached")
	}
}
