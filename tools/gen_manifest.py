#!/usr/bin/env python3
# Generates MANIFEST.json from checks.json + the per-property texts below.
import json, os
checks = json.load(open('/verif/checks.json'))
props = [json.loads(l) for l in open('/verif/properties.jsonl')]
notes = json.load(open('/verif/tools/manifest_notes.json'))
baseline = json.load(open('/root/.vp/BASELINE.json'))['cmd']
m = {
 "version": 1,
 "setup_cmd": "cd /verif/gosmt && GOFLAGS=-mod=mod GOPROXY=off GOSUMDB=off GOTOOLCHAIN=local go build -o /verif/bin/gosmt .",
 "hooks": {
  "guard": "verif",
  "enable": "none needed: harnesses are in-package files injected with go/packages and `go test -overlay` overlays; /repo carries no hook code",
  "baseline_off_cmd": baseline,
  "source_commits": [],
  "add_only": True
 },
 "engines": [{"name": "gosmt", "path": "/verif/gosmt", "serves_properties": sorted(checks.keys()),
   "kind_free_text": "own Go SSA (x/tools go/ssa) -> SMT-LIB bit-vector symbolic executor with solver-decided path forking, preemption-bounded interleaving, native replay of solver models; z3 5.1.0 (cross-check z3 4.8.12 / cvc5)"}],
 "checks": [],
 "not_applicable": [],
 "notes": "All checks: bin/check <ID> quick|thorough. Exit 0 = every obligation discharged (unsat) within the stated bounds; exit 1 + VIOLATION line = solver model replayed natively against the real build; exit 2 = inconclusive (solver unknown / bound exceeded), never reported as success."
}
for p in props:
    pid = p['id']
    if pid in checks and pid in notes.get('claimed', {}):
        n = notes['claimed'][pid]
        m['checks'].append({
          "property_id": pid,
          "quick_cmd": f"bin/check {pid} quick",
          "thorough_cmd": f"bin/check {pid} thorough",
          "evidence_file": f"/verif/evidence/{pid}.json",
          "replay_cmd_template": "sh {path}/cmd.sh",
          "engine": "gosmt",
          "level_claimed": {"category": "model_checking", "text": n['text'], "design_ref": n.get('design_ref', 'DESIGN.md §4 ' + pid)},
          "level_note": n['note'],
          "technique": "bounded symbolic execution of the real go/ssa with SMT (z3) deciding every branch and assertion; counterexamples replayed natively"
        })
    else:
        m['not_applicable'].append({"property_id": pid, "reason": notes['not_applicable'].get(pid, "check not built yet in this session (engine work in progress); no claim made")})
json.dump(m, open('/verif/MANIFEST.json', 'w'), indent=1)
print("claimed:", [c['property_id'] for c in m['checks']])
