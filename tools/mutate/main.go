// mutate enumerates and applies small source mutations to a Go file (stdlib only).
//
//	mutate -file f.go -list          prints "<index>\t<line>\t<description>" for every mutation point
//	mutate -file f.go -n i -o out.go writes mutant i
//
// Operators: negate an if condition; swap a relational/logical/arithmetic operator for its
// neighbour; delete a call statement or a defer; swap two adjacent simple statements;
// bump an integer literal; ++ <-> --; drop one case of a select; replace a returned error
// by nil.
package main

import (
	"bytes"
	"flag"
	"fmt"
	"go/ast"
	"go/parser"
	"go/printer"
	"go/token"
	"os"
	"strconv"
)

type mutation struct {
	line  int
	desc  string
	fn    string
	apply func()
}

func main() {
	file := flag.String("file", "", "go file")
	list := flag.Bool("list", false, "list mutation points")
	n := flag.Int("n", -1, "mutation index")
	out := flag.String("o", "", "output file")
	flag.Parse()
	fset := token.NewFileSet()
	f, err := parser.ParseFile(fset, *file, nil, parser.ParseComments)
	if err != nil {
		fmt.Fprintln(os.Stderr, err)
		os.Exit(2)
	}
	var muts []mutation
	curFn := ""
	add := func(pos token.Pos, desc string, apply func()) {
		muts = append(muts, mutation{fset.Position(pos).Line, desc, curFn, apply})
	}
	swapOp := map[token.Token]token.Token{
		token.LSS: token.LEQ, token.LEQ: token.LSS, token.GTR: token.GEQ, token.GEQ: token.GTR,
		token.EQL: token.NEQ, token.NEQ: token.EQL, token.LAND: token.LOR, token.LOR: token.LAND,
		token.ADD: token.SUB, token.SUB: token.ADD,
	}
	simple := func(s ast.Stmt) bool {
		switch x := s.(type) {
		case *ast.ExprStmt, *ast.DeferStmt, *ast.IncDecStmt, *ast.SendStmt:
			return true
		case *ast.AssignStmt:
			return x.Tok != token.DEFINE
		}
		return false
	}
	doList := func(list *[]ast.Stmt) {
		l := *list
		for i := range l {
			i := i
			switch s := l[i].(type) {
			case *ast.ExprStmt:
				if _, ok := s.X.(*ast.CallExpr); ok {
					add(s.Pos(), "delete call statement", func() { (*list)[i] = &ast.EmptyStmt{Semicolon: s.Pos(), Implicit: false} })
				}
			case *ast.DeferStmt:
				add(s.Pos(), "delete defer", func() { (*list)[i] = &ast.EmptyStmt{Semicolon: s.Pos()} })
			}
			if i+1 < len(l) && simple(l[i]) && simple(l[i+1]) {
				add(l[i].Pos(), "swap with next statement", func() { (*list)[i], (*list)[i+1] = (*list)[i+1], (*list)[i] })
			}
		}
	}
	ast.Inspect(f, func(nd ast.Node) bool {
		switch x := nd.(type) {
		case *ast.FuncDecl:
			if x.Name.Name == "String" || x.Name.Name == "log" {
				return false // presentation only
			}
			curFn = x.Name.Name
			if x.Recv != nil && len(x.Recv.List) == 1 {
				t := x.Recv.List[0].Type
				if st, ok := t.(*ast.StarExpr); ok {
					t = st.X
				}
				if ix, ok := t.(*ast.IndexExpr); ok {
					t = ix.X
				}
				if ix, ok := t.(*ast.IndexListExpr); ok {
					t = ix.X
				}
				if id, ok := t.(*ast.Ident); ok {
					curFn = id.Name + ")." + x.Name.Name
				}
			}
		case *ast.IfStmt:
			add(x.Cond.Pos(), "negate if condition", func() { x.Cond = &ast.UnaryExpr{Op: token.NOT, X: &ast.ParenExpr{X: x.Cond}} })
		case *ast.BinaryExpr:
			if to, ok := swapOp[x.Op]; ok {
				from := x.Op
				add(x.OpPos, fmt.Sprintf("operator %s -> %s", from, to), func() { x.Op = to })
			}
		case *ast.BlockStmt:
			doList(&x.List)
		case *ast.CaseClause:
			doList(&x.Body)
		case *ast.CommClause:
			doList(&x.Body)
		case *ast.SelectStmt:
			for i := range x.Body.List {
				i := i
				if len(x.Body.List) > 1 {
					add(x.Body.List[i].Pos(), "drop select case", func() {
						x.Body.List = append(append([]ast.Stmt{}, x.Body.List[:i]...), x.Body.List[i+1:]...)
					})
				}
			}
		case *ast.IncDecStmt:
			add(x.Pos(), "++ <-> --", func() {
				if x.Tok == token.INC {
					x.Tok = token.DEC
				} else {
					x.Tok = token.INC
				}
			})
		case *ast.BasicLit:
			if x.Kind == token.INT {
				if v, err := strconv.ParseInt(x.Value, 0, 64); err == nil && v >= 0 && v < 1<<20 {
					add(x.Pos(), fmt.Sprintf("int literal %d -> %d", v, v+1), func() { x.Value = strconv.FormatInt(v+1, 10) })
				}
			}
		case *ast.ReturnStmt:
			for i, r := range x.Results {
				i := i
				if id, ok := r.(*ast.Ident); ok && id.Name == "err" {
					add(x.Pos(), "return nil instead of err", func() { x.Results[i] = ast.NewIdent("nil") })
				}
			}
		}
		return true
	})
	if *list {
		for i, m := range muts {
			fmt.Printf("%d\t%d\t%s\t%s\n", i, m.line, m.desc, m.fn)
		}
		return
	}
	if *n < 0 || *n >= len(muts) {
		fmt.Fprintln(os.Stderr, "index out of range")
		os.Exit(2)
	}
	muts[*n].apply()
	var buf bytes.Buffer
	if err := printer.Fprint(&buf, fset, f); err != nil {
		fmt.Fprintln(os.Stderr, err)
		os.Exit(2)
	}
	if err := os.WriteFile(*out, buf.Bytes(), 0o644); err != nil {
		fmt.Fprintln(os.Stderr, err)
		os.Exit(2)
	}
}
