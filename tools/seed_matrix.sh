#!/bin/bash
# usage: tools/seed_matrix.sh [tier] [seed-id ...]  -- applies each kept seed to /repo, runs the check of its property, reverts
cd /verif
tier=${1:-quick}; shift
seeds=${@:-$(ls seeded)}
for sd in $seeds; do
  prop=$(python3 -c "import json;print(json.load(open('seeded/$sd/meta.json'))['property'])")
  also=$(python3 -c "import json;print(' '.join(json.load(open('seeded/$sd/meta.json')).get('also_checked_by',[])))")
  if ! git -C /repo apply --check /verif/seeded/$sd/patch.diff 2>/dev/null; then echo "$sd: PATCH DOES NOT APPLY"; continue; fi
  git -C /repo apply /verif/seeded/$sd/patch.diff
  res=""
  for p in $prop $also; do
    [ -f evidence/$p.json ] && cp evidence/$p.json /tmp/ev_$p.bak
    out=$(VERIF_NO_WITNESS=1 bin/check $p $tier 2>&1); r=$?
    n=$(echo "$out" | grep -c "^VIOLATION")
    res="$res $p:exit=$r,violations=$n"
    [ -f /tmp/ev_$p.bak ] && mv /tmp/ev_$p.bak evidence/$p.json
  done
  git -C /repo checkout -- .
  echo "$sd:$res"
done
