#!/bin/bash
# usage: tools/stress_repo.sh [repo-dir]   -- run after every change to /repo itself (fix: commits):
# the concurrency-heavy packages under the race detector, many times and in four parallel
# loops (the hang that the first F13 repair introduced only showed under load), plus the
# integration module. Exit 0 iff nothing failed or timed out.
REPO=${1:-/repo}
export GOFLAGS=-mod=mod GOPROXY=off GOSUMDB=off GOTOOLCHAIN=local
W=$(mktemp -d); trap 'rm -rf "$W"' EXIT
rc=0
for p in drpcmanager drpcstream drpcconn drpcpool drpcserver drpcmigrate; do
  (cd $REPO && go test -race -c -o $W/$p.test ./$p/) || { echo "build $p failed"; rc=1; continue; }
  for j in 1 2 3 4; do
    ( for i in $(seq 1 8); do (cd $REPO/$p && $W/$p.test -test.count=10 -test.timeout 120s) > $W/$p.$j.log 2>&1 || { echo "$p: loop $j run $i FAILED"; tail -5 $W/$p.$j.log; exit 1; }; done ) &
  done
  for job in $(jobs -p); do wait $job || rc=1; done
  echo "$p: done"
done
(cd $REPO/internal/integration && GOTOOLCHAIN= GOSUMDB= go test -vet=off -race -count=5 . 2>&1 | tail -2) || rc=1
exit $rc
