package drpcstream

import (
	"context"
	"io"

	"github.com/zeebo/errs"

	"storj.io/drpc"
	"storj.io/drpc/drpcerr"
	"storj.io/drpc/drpcwire"
	vrt "storj.io/drpc/internal/verifrt"
)

// ---- scripted environment ----

type tErr struct{}

func (*tErr) Error() string { return "transport failure" }

var transportErr error = &tErr{}

// recTransport records what reaches the transport. Write k (1-based) fails when failAt == k.
// With gate set, a Write parks (visible to the scheduler) until *gate becomes true.
type recTransport struct {
	log       []byte
	writes    int
	failAt    int
	inWrite   bool
	reenter   bool
	gate      *bool
	parked    bool
	afterTerm *Stream // if set, record whether a write started after the stream finished
	lateWrite bool
}

func (t *recTransport) Write(p []byte) (int, error) {
	if t.inWrite {
		t.reenter = true
	}
	t.inWrite = true
	t.writes++
	if t.afterTerm != nil && t.afterTerm.IsFinished() {
		t.lateWrite = true
	}
	if t.gate != nil {
		t.parked = true
		vrt.WaitFor(t.gate)
		t.parked = false
	}
	t.inWrite = false
	if t.failAt != 0 && t.writes >= t.failAt {
		return 0, transportErr
	}
	t.log = append(t.log, p...)
	return len(p), nil
}

// byteEnc is the encoding used by harnesses: messages are *[]byte.
type byteEnc struct{}

func (byteEnc) Marshal(msg drpc.Message) ([]byte, error) {
	return *(msg.(*[]byte)), nil
}

func (byteEnc) Unmarshal(buf []byte, msg drpc.Message) error {
	*(msg.(*[]byte)) = append([]byte(nil), buf...)
	return nil
}

// ---- error classes ----

const (
	cNil = iota
	cEOF
	cSendClosed
	cTermError
	cTermClosed
	cTermBothClosed
	cRemoteClosed // drpc.ClosedError
	cProtocol
	cInternal
	cCanceled
	cDeadline
	cRemoteError // decoded KindError payload
	cTransport
	cOther
)

func classify(err error) int {
	switch {
	case err == nil:
		return cNil
	case err == io.EOF:
		return cEOF
	case err == sendClosed:
		return cSendClosed
	case err == termError:
		return cTermError
	case err == termClosed:
		return cTermClosed
	case err == termBothClosed:
		return cTermBothClosed
	case err == context.Canceled:
		return cCanceled
	case err == context.DeadlineExceeded:
		return cDeadline
	case drpc.ClosedError.Has(err):
		return cRemoteClosed
	case drpc.ProtocolError.Has(err):
		return cProtocol
	case drpc.InternalError.Has(err):
		return cInternal
	case errs.Is(err, transportErr):
		return cTransport
	}
	if _, ok := err.(interface{ Code() uint64 }); ok {
		return cRemoteError
	}
	return cOther
}

// ---- reference state machine (written from state.dot / README / doc comments) ----

type refFrameOut struct {
	kind    drpcwire.Kind
	control bool
	data    []byte
}

type refStream struct {
	send, recv, term, cancel int // cause class, 0 = not set (open)
	pbuf                     int // cause the packet buffer was closed with (what a receive reports)
	remoteCode               uint64
	remoteMsg                []byte
	out                      []refFrameOut
	nextMsg                  uint64
}

func setOnce(p *int, c int) {
	if *p == 0 {
		*p = c
	}
}

func (r *refStream) terminate(c int) {
	setOnce(&r.send, c)
	setOnce(&r.recv, c)
	setOnce(&r.term, c)
	setOnce(&r.pbuf, c)
}

func (r *refStream) emit(kind drpcwire.Kind, control bool, data []byte) {
	r.out = append(r.out, refFrameOut{kind, control, data})
}

func (r *refStream) finished() bool { return r.term != 0 } // between calls nothing is in flight

// ---- comparing the transport log with the reference's emitted packets ----

// checkLog parses the transport log with the real ParseFrame and compares it, packet by
// packet (frames of one message re-joined), with what the reference says was emitted.
func checkLog(log []byte, sid uint64, want []refFrameOut) {
	rem := log
	var msgID uint64
	for i := 0; i < len(want); i++ {
		var data []byte
		frames := 0
		for {
			var fr drpcwire.Frame
			var ok bool
			var err error
			rem, fr, ok, err = drpcwire.ParseFrame(rem)
			vrt.Assert(ok && err == nil, "transport log is a sequence of whole well-formed frames")
			if !ok || err != nil {
				return
			}
			if frames == 0 {
				vrt.Assert(fr.ID.Message > msgID, "message ids strictly increase from packet to packet")
				msgID = fr.ID.Message
			} else {
				vrt.Assert(fr.ID.Message == msgID, "frames of one packet share the message id")
			}
			vrt.Assert(fr.ID.Stream == sid, "frames carry the stream's id")
			vrt.Assert(fr.Kind == want[i].kind, "emitted packet kind equals reference")
			vrt.Assert(fr.Control == want[i].control, "emitted control bit equals reference")
			data = append(data, fr.Data...)
			frames++
			if fr.Done {
				break
			}
			vrt.Assert(frames < 8, "packet terminates")
		}
		vrt.Assert(len(data) == len(want[i].data), "emitted payload length equals reference")
		for j := range want[i].data {
			vrt.Assert(data[j] == want[i].data[j], "emitted payload bytes equal reference")
		}
	}
	vrt.Assert(len(rem) == 0, "nothing is emitted beyond what the reference emits")
}

func codeOf(err error) uint64 { return drpcerr.Code(err) }
