#!/bin/bash
# usage: tools/solver_diff.sh [ids...]   (default: the solver-heavy sequential checks)
# Runs the quick tier of the given checks once per solver back end (z3 5.1.0 = default,
# z3 4.8.12, cvc5 1.0) and compares verdicts, obligations and cover sets per harness. Evidence of these
# runs goes to scratch files (VERIF_ONLY), never to evidence/. Exit 1 on any disagreement.
cd "$(dirname "$0")/.."
ids=${@:-C08 C09 C11 C13 C14 C18}
rc=0
for id in $ids; do
  for sv in z3-new z3 cvc5; do
    VERIF_SOLVER=$sv VERIF_ONLY=VerifH_ VERIF_NO_WITNESS=1 GOSMT_TIMEOUT_CAP=900 bin/check $id quick > /tmp/sdiff_$id.$sv.log 2>&1; r=$?
    cp /tmp/verif_partial_$id.json /tmp/sdiff_$id.$sv.json 2>/dev/null
    echo "$id $sv exit=$r"
  done
  python3 - $id <<'PY' || rc=1
import json,sys
id=sys.argv[1]
ref=None; bad=False
for sv in ("z3-new","z3","cvc5"):
    try: d=json.load(open(f"/tmp/sdiff_{id}.{sv}.json"))
    except Exception as e:
        print(f"  {id} {sv}: no evidence ({e})"); bad=True; continue
    sig={h["harness"]:(h.get("status"),h.get("obligations"),h.get("discharged"),tuple(h.get("covers_reached") or []),h.get("violations")) for h in d["coverage"]["harnesses"]}
    if ref is None: ref=(sv,sig)
    elif sig!=ref[1]:
        bad=True
        for k in sig:
            if sig[k]!=ref[1].get(k): print(f"  {id} {k}: {ref[0]}={ref[1].get(k)} {sv}={sig[k]}")
print(f"  {id}: back ends "+("DISAGREE" if bad else "agree"))
sys.exit(1 if bad else 0)
PY
done
exit $rc
