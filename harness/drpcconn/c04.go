package drpcconn

import (
	"context"

	"storj.io/drpc"
	"storj.io/drpc/drpcmanager"
	"storj.io/drpc/drpcwire"
	vrt "storj.io/drpc/internal/verifrt"
	"storj.io/drpc/internal/verifrt/hx"
)

const (
	scInvokeWaitingResponse     = iota // unary Invoke blocked in its receive
	scInvokeParkedInWrite              // unary Invoke parked in the transport write
	scRecvBlocked                      // stream: MsgRecv blocked
	scSendParked                       // stream: MsgSend parked in the transport
	scSendParkedCloseBehind            // stream: MsgSend parked, Close() waiting behind it
	scSendParkedCloseSendBehind        // stream: MsgSend parked, CloseSend() waiting behind it
	scSendParkedRecvBlocked            // stream: MsgSend parked and MsgRecv blocked
	scIdleThenOps                      // nothing in flight at cancel time; operations issued afterwards
	scRecvBlockedWritesStall           // stream: MsgRecv blocked; from the cancel on the transport accepts no writes
	numScen
)

// VerifH_CancelUnblocks: client side. Operations of one RPC are in flight (blocked on the
// peer or parked in the transport) when the RPC's context is cancelled; at quiescence
// every call has returned, later calls fail, and the connection is closed or reusable.
func VerifH_CancelUnblocks() {
	soft := vrt.Bool("soft")
	scen := vrt.Int("scen")
	vrt.Assume(scen >= 0 && scen < numScen)
	vrt.Tag("hard-cancel", !soft)
	vrt.Tag("close-behind-parked-send", scen == scSendParkedCloseBehind || scen == scSendParkedCloseSendBehind)
	tr := &hx.Transport{}
	gate := false
	wsize := 0
	if vrt.Bool("tinyWriterBuffer") {
		wsize = 1 // every frame is flushed inside WriteFrame (as for messages beyond the buffer size)
	}
	conn := NewWithOptions(tr, Options{Manager: drpcmanager.Options{SoftCancel: soft, WriterBufferSize: wsize}})
	ctx := hx.NewCtx()
	enc := hx.ByteEnc{}

	var err1, err2 error
	var done1, done2 bool
	two := false
	var stream drpc.Stream
	in := []byte{1}
	var out []byte

	switch scen {
	case scInvokeWaitingResponse, scInvokeParkedInWrite:
		if scen == scInvokeParkedInWrite {
			tr.Gate = &gate
		}
		go func() { err1 = conn.Invoke(ctx, "rpc", enc, &in, &out); done1 = true }()
	default:
		var err error
		stream, err = conn.NewStream(ctx, "rpc", enc)
		vrt.Assert(err == nil && stream != nil, "NewStream succeeds on a fresh connection")
		switch scen {
		case scRecvBlocked, scRecvBlockedWritesStall:
			go func() { err1 = stream.MsgRecv(&out, enc); done1 = true }()
		case scSendParked:
			tr.Gate = &gate
			go func() { err1 = stream.MsgSend(&in, enc); done1 = true }()
		case scSendParkedCloseBehind, scSendParkedCloseSendBehind:
			tr.Gate = &gate
			two = true
			go func() { err1 = stream.MsgSend(&in, enc); done1 = true }()
			go func() {
				vrt.WaitFor(&tr.WParked)
				if scen == scSendParkedCloseBehind {
					err2 = stream.Close()
				} else {
					err2 = stream.CloseSend()
				}
				done2 = true
			}()
		case scSendParkedRecvBlocked:
			tr.Gate = &gate
			two = true
			go func() { err1 = stream.MsgSend(&in, enc); done1 = true }()
			go func() { err2 = stream.MsgRecv(&out, enc); done2 = true }()
		case scIdleThenOps:
			done1 = true
		}
	}

	vrt.Quiesce()
	if scen != scIdleThenOps {
		vrt.Assert(!done1 && (!two || !done2), "the operations are blocked before the cancel")
	}
	vrt.Cover("blocked-before-cancel")

	// ---- the RPC's context is cancelled; no cooperation from peer or transport ----
	if scen == scRecvBlockedWritesStall {
		tr.Gate = &gate // whatever the cancel wants to write parks in the transport
	}
	ctx.Cancel(context.Canceled)
	vrt.Quiesce()
	if scen == scRecvBlockedWritesStall {
		vrt.Assert(done1 && err1 == context.Canceled, "a blocked receive returns the context's error at once, also while the transport accepts no writes")
		gate = true
		vrt.Quiesce()
	}

	vrt.Assert(done1 && (!two || done2), "every blocked call returns after the context is cancelled")
	switch scen {
	case scInvokeWaitingResponse, scRecvBlocked, scRecvBlockedWritesStall:
		vrt.Assert(err1 == context.Canceled, "a blocked receive reports the context's error")
	case scInvokeParkedInWrite, scSendParked:
		vrt.Assert(err1 != nil, "a blocked send fails")
		if !soft {
			vrt.Assert(err1 == context.Canceled, "in the default cancel mode a blocked send reports the context's error")
		}
	case scSendParkedRecvBlocked:
		vrt.Assert(err1 != nil, "a blocked send fails")
		vrt.Tag("recv-err-nil", err2 == nil)
		vrt.Tag("recv-err-transport", err2 != nil && err2 != context.Canceled)
		vrt.Assert(err2 == context.Canceled, "a blocked receive reports the context's error")
	}
	if stream != nil {
		m2 := []byte{2}
		vrt.Assert(stream.MsgSend(&m2, enc) != nil, "later sends fail")
		var o2 []byte
		vrt.Assert(stream.MsgRecv(&o2, enc) != nil, "later receives fail")
		vrt.Assert(hx.IsClosedCh(stream.Context().Done()), "the stream's context is done")
	}

	// ---- afterwards: closed, or usable for the next RPC ----
	if hx.IsClosedCh(conn.Closed()) {
		vrt.Assert(tr.Closes == 1, "a closed connection closed its transport exactly once")
		_, err := conn.NewStream(hx.NewCtx(), "next", enc)
		vrt.Assert(err != nil, "new streams fail on a closed connection")
		vrt.Cover("after-cancel-closed")
	} else {
		vrt.Assert(hx.IsClosedCh(conn.Unblocked()), "an open connection is unblocked for the next RPC")
		// the server answers the next RPC (stream id 2)
		tr.Feed(hx.Pkt(drpcwire.KindMessage, 2, 1, false, []byte{0x42}))
		tr.Feed(hx.Pkt(drpcwire.KindCloseSend, 2, 2, false, nil))
		var resp []byte
		var nerr error
		ndone := false
		go func() { nerr = conn.Invoke(hx.NewCtx(), "next", enc, &in, &resp); ndone = true }()
		vrt.Quiesce()
		vrt.Assert(ndone && nerr == nil && len(resp) == 1 && resp[0] == 0x42, "the next RPC on the reused connection completes with its own response")
		vrt.Cover("after-cancel-reused")
	}
	conn.Close()
}

// VerifH_CancelWaitingCall: RPC 1 holds the connection (an open stream). RPC 2 (unary or
// stream, symbolic) is issued and waits for the connection; then RPC 2's own context is
// cancelled: RPC 2 returns the context's error, RPC 1 is untouched and still works, and
// after RPC 1 ends the connection serves a further call. Both cancel modes.
func VerifH_CancelWaitingCall() {
	tr := &hx.Transport{}
	conn := NewWithOptions(tr, Options{Manager: drpcmanager.Options{SoftCancel: vrt.Bool("soft")}})
	enc := hx.ByteEnc{}
	s1, err := conn.NewStream(hx.NewCtx(), "one", enc)
	vrt.Assert(err == nil, "RPC 1 starts")
	ctx2 := hx.NewCtx()
	var err2 error
	d2 := false
	unary := vrt.Bool("unary")
	go func() {
		if unary {
			in := []byte{2}
			var out []byte
			err2 = conn.Invoke(ctx2, "two", enc, &in, &out)
		} else {
			_, err2 = conn.NewStream(ctx2, "two", enc)
		}
		d2 = true
	}()
	vrt.Quiesce()
	vrt.Assert(!d2, "RPC 2 waits while RPC 1 holds the connection")
	ctx2.Cancel(context.Canceled)
	vrt.Quiesce()
	vrt.Assert(d2 && err2 == context.Canceled, "a call waiting for the connection returns the context's error when its context is cancelled")
	vrt.Assert(!hx.IsClosedCh(conn.Closed()), "cancelling a call that never started leaves the connection open")
	m := []byte{1}
	vrt.Assert(s1.MsgSend(&m, enc) == nil, "RPC 1 is unaffected")
	vrt.Assert(s1.Close() == nil, "RPC 1 closes")
	tr.Feed(hx.Pkt(drpcwire.KindMessage, 2, 1, false, []byte{0x42}))
	tr.Feed(hx.Pkt(drpcwire.KindCloseSend, 2, 2, false, nil))
	in := []byte{3}
	var out []byte
	var perr error
	pd := false
	go func() { perr = conn.Invoke(hx.NewCtx(), "three", enc, &in, &out); pd = true }()
	vrt.Quiesce()
	vrt.Assert(pd && perr == nil && len(out) == 1 && out[0] == 0x42, "a further call on the connection completes")
	vrt.Cover("cancel-waiting-end")
	conn.Close()
}
