package main

import (
	"fmt"
	"go/token"
)

type intrinsicFn func(e *Engine, st *State, th *Thread, args []Value, pos token.Pos) Value

var intrinsics = map[string]intrinsicFn{}

const vrtPkg = "storj.io/drpc/internal/verifrt"

func init() {
	// ---- harness runtime ----
	for _, d := range []struct {
		n string
		w int
	}{{"U64", 64}, {"U32", 32}, {"U16", 16}, {"U8", 8}, {"Int", 64}, {"Bool", 0}} {
		w := d.w
		intrinsics[vrtPkg+"."+d.n] = func(e *Engine, st *State, th *Thread, args []Value, pos token.Pos) Value {
			return e.freshVar(st, e.mustConstString(st, args[0]), w)
		}
	}
	// Choice returns a value in [0,n) chosen by the solver and concretised by forking.
	intrinsics[vrtPkg+".Choice"] = func(e *Engine, st *State, th *Thread, args []Value, pos token.Pos) Value {
		name := e.mustConstString(st, args[0])
		n := e.concInt(st, args[1].(*Term))
		cnt := st.names[name]
		full := name
		if cnt > 0 {
			full = fmt.Sprintf("%s#%d", name, cnt+1)
		}
		v := e.ts.Var(full, 64)
		if c, ok := st.conc[v.id]; ok {
			st.names[name] = cnt + 1
			st.vars = append(st.vars, v)
			return e.i64(c)
		}
		vals := make([]uint64, n)
		for i := range vals {
			vals[i] = uint64(i)
		}
		if n == 1 {
			st.conc[v.id] = 0
			st.names[name] = cnt + 1
			st.vars = append(st.vars, v)
			return e.i64(0)
		}
		panic(forkVals{v, vals})
	}
	intrinsics[vrtPkg+".Bytes"] = func(e *Engine, st *State, th *Thread, args []Value, pos token.Pos) Value {
		name := e.mustConstString(st, args[0])
		max := e.concInt(st, args[1].(*Term))
		return e.symBytes(st, name, max, true)
	}
	intrinsics[vrtPkg+".BytesN"] = func(e *Engine, st *State, th *Thread, args []Value, pos token.Pos) Value {
		name := e.mustConstString(st, args[0])
		n := e.concInt(st, args[1].(*Term))
		return e.symBytes(st, name, n, false)
	}
	intrinsics[vrtPkg+".Str"] = func(e *Engine, st *State, th *Thread, args []Value, pos token.Pos) Value {
		name := e.mustConstString(st, args[0])
		max := e.concInt(st, args[1].(*Term))
		s := e.symBytes(st, name, max, true).(SliceV)
		arr := st.heap[s.obj].(*ArrV)
		return &StrV{arr: arr, off: e.i64(0), len: s.len}
	}
	intrinsics[vrtPkg+".Assume"] = func(e *Engine, st *State, th *Thread, args []Value, pos token.Pos) Value {
		c := args[0].(*Term)
		if c.IsTrue() {
			return nil
		}
		if c.IsFalse() {
			panic(pathEnd{"assume"})
		}
		if v, ok := st.known[c.id]; ok {
			if !v {
				panic(pathEnd{"assume"})
			}
			return nil
		}
		if e.check(st.pc, c) == RUnsat {
			panic(pathEnd{"assume"})
		}
		e.pushPC(st, c)
		return nil
	}
	intrinsics[vrtPkg+".Assert"] = func(e *Engine, st *State, th *Thread, args []Value, pos token.Pos) Value {
		c := args[0].(*Term)
		label := e.mustConstString(st, args[1])
		e.assert(st, c, label, pos)
		return nil
	}
	intrinsics[vrtPkg+".Bounded"] = func(e *Engine, st *State, th *Thread, args []Value, pos token.Pos) Value {
		st.boundLabel = e.mustConstString(st, args[0])
		st.boundDeadline = st.steps + e.concInt(st, args[1].(*Term))
		return nil
	}
	intrinsics[vrtPkg+".BoundedEnd"] = func(e *Engine, st *State, th *Thread, args []Value, pos token.Pos) Value {
		st.boundLabel = ""
		return nil
	}
	intrinsics[vrtPkg+".Cover"] = func(e *Engine, st *State, th *Thread, args []Value, pos token.Pos) Value {
		label := e.mustConstString(st, args[0])
		e.cover(st, label)
		return nil
	}
	intrinsics[vrtPkg+".Tag"] = func(e *Engine, st *State, th *Thread, args []Value, pos token.Pos) Value {
		label := e.mustConstString(st, args[0])
		c := args[1].(*Term)
		if e.decide(st, c) {
			st.tags = append(st.tags, label)
		}
		return nil
	}
	intrinsics[vrtPkg+".Symbolic"] = func(e *Engine, st *State, th *Thread, args []Value, pos token.Pos) Value {
		return e.ts.True
	}
	intrinsics[vrtPkg+".Fail"] = func(e *Engine, st *State, th *Thread, args []Value, pos token.Pos) Value {
		label := e.mustConstString(st, args[0])
		e.assert(st, e.ts.False, label, pos)
		panic(pathEnd{"fail"})
	}
	intrinsics[vrtPkg+".Quiesce"] = func(e *Engine, st *State, th *Thread, args []Value, pos token.Pos) Value {
		e.schedPoint(st, th, "quiesce", pos)
		th.granted = false
		e.syncAll(st, th)
		return nil
	}
	visibleCalls[vrtPkg+".Quiesce"] = func(e *Engine, st *State, th *Thread, args []Value) bool {
		for _, u := range st.threads {
			if u != th && !u.finished && e.enabledAt(st, u) {
				return false
			}
		}
		return true
	}
	intrinsics[vrtPkg+".Yield"] = func(e *Engine, st *State, th *Thread, args []Value, pos token.Pos) Value {
		e.schedPoint(st, th, "yield", pos)
		th.granted = false
		e.syncAll(st, th)
		return nil
	}
	visibleCalls[vrtPkg+".Yield"] = nil
	// Park blocks the calling thread until the given *bool becomes true.
	intrinsics[vrtPkg+".WaitFor"] = func(e *Engine, st *State, th *Thread, args []Value, pos token.Pos) Value {
		e.schedPoint(st, th, "waitfor", pos)
		th.granted = false
		e.syncAll(st, th)
		return nil
	}
	visibleCalls[vrtPkg+".WaitFor"] = func(e *Engine, st *State, th *Thread, args []Value) bool {
		p := args[0].(Ptr)
		c := st.load(p).(*Term)
		if !c.IsConst() {
			panic(engErr("WaitFor on symbolic flag"))
		}
		return c.IsTrue()
	}
	intrinsics[vrtPkg+".Finished"] = func(e *Engine, st *State, th *Thread, args []Value, pos token.Pos) Value {
		id := e.concInt(st, args[0].(*Term))
		if id < 0 || id >= len(st.threads) {
			return e.ts.False
		}
		return e.ts.Bool(st.threads[id].finished)
	}
	intrinsics[vrtPkg+".Unfinished"] = func(e *Engine, st *State, th *Thread, args []Value, pos token.Pos) Value {
		n := 0
		for _, u := range st.threads {
			if u != th && !u.finished {
				n++
			}
		}
		return e.i64(uint64(n))
	}
	intrinsics[vrtPkg+".ThreadID"] = func(e *Engine, st *State, th *Thread, args []Value, pos token.Pos) Value {
		return e.i64(uint64(th.id))
	}
	intrinsics[vrtPkg+".NumThreads"] = func(e *Engine, st *State, th *Thread, args []Value, pos token.Pos) Value {
		return e.i64(uint64(len(st.threads)))
	}
	intrinsics[vrtPkg+".Share"] = func(e *Engine, st *State, th *Thread, args []Value, pos token.Pos) Value {
		// marks the object behind an interface-wrapped pointer as shared (fine-grained mode)
		if iv, ok := args[0].(IfaceV); ok {
			if p, ok := iv.v.(Ptr); ok && p.obj != 0 {
				if st.shared == nil {
					st.shared = map[int]bool{}
				}
				st.shared[p.obj] = true
			}
		}
		return nil
	}
	intrinsics[vrtPkg+".Native"] = func(e *Engine, st *State, th *Thread, args []Value, pos token.Pos) Value {
		return e.ts.False
	}

	// ---- sync.Mutex ----
	intrinsics["(*sync.Mutex).Lock"] = func(e *Engine, st *State, th *Thread, args []Value, pos token.Pos) Value {
		e.schedPoint(st, th, "Lock", pos)
		th.granted = false
		p := args[0].(Ptr)
		if !mutexFree(e, st, p) {
			panic(engErr("Lock granted on held mutex"))
		}
		mutexSet(e, st, p, true, th.id)
		e.acquire(st, th, "mu:"+p.key())
		return nil
	}
	visibleCalls["(*sync.Mutex).Lock"] = func(e *Engine, st *State, th *Thread, args []Value) bool {
		return mutexFree(e, st, args[0].(Ptr))
	}
	intrinsics["(*sync.Mutex).TryLock"] = func(e *Engine, st *State, th *Thread, args []Value, pos token.Pos) Value {
		e.schedPoint(st, th, "TryLock", pos)
		th.granted = false
		p := args[0].(Ptr)
		if mutexFree(e, st, p) {
			mutexSet(e, st, p, true, th.id)
			e.acquire(st, th, "mu:"+p.key())
			return e.ts.True
		}
		return e.ts.False
	}
	visibleCalls["(*sync.Mutex).TryLock"] = nil
	intrinsics["(*sync.Mutex).Unlock"] = func(e *Engine, st *State, th *Thread, args []Value, pos token.Pos) Value {
		p := args[0].(Ptr)
		if mutexFree(e, st, p) {
			panic(goPanic{"sync: unlock of unlocked mutex"})
		}
		e.release(st, th, "mu:"+p.key())
		mutexSet(e, st, p, false, 0)
		return nil
	}
	// ---- sync.Cond ----
	intrinsics["(*sync.Cond).Wait"] = func(e *Engine, st *State, th *Thread, args []Value, pos token.Pos) Value {
		p := args[0].(Ptr)
		lp := condLocker(e, st, p)
		if th.condPhase == 0 {
			if mutexFree(e, st, lp) {
				panic(goPanic{"sync: Cond.Wait with unlocked mutex"})
			}
			e.release(st, th, "mu:"+lp.key())
			mutexSet(e, st, lp, false, 0)
			th.condPhase = 1
			th.waitCond = p.key()
			th.signaled = false
			th.granted = false
			e.schedule(st, "Cond.Wait", pos) // current thread is now disabled: forced switch
			panic(engErr("Cond.Wait: schedule returned to a waiting thread"))
		}
		e.schedPoint(st, th, "Cond.Wake", pos)
		th.granted = false
		mutexSet(e, st, lp, true, th.id)
		e.acquire(st, th, "mu:"+lp.key())
		e.acquire(st, th, "cond:"+p.key())
		th.condPhase = 0
		th.waitCond = ""
		th.signaled = false
		return nil
	}
	visibleCalls["(*sync.Cond).Wait"] = func(e *Engine, st *State, th *Thread, args []Value) bool {
		if th.condPhase == 0 {
			return true
		}
		return th.signaled && mutexFree(e, st, condLocker(e, st, args[0].(Ptr)))
	}
	wakeAll := func(e *Engine, st *State, th *Thread, args []Value, pos token.Pos) Value {
		key := args[0].(Ptr).key()
		e.release(st, th, "cond:"+key)
		for _, u := range st.threads {
			if u.condPhase == 1 && u.waitCond == key {
				u.signaled = true
			}
		}
		return nil
	}
	intrinsics["(*sync.Cond).Broadcast"] = wakeAll
	intrinsics["(*sync.Cond).Signal"] = func(e *Engine, st *State, th *Thread, args []Value, pos token.Pos) Value {
		key := args[0].(Ptr).key()
		var ws []*Thread
		for _, u := range st.threads {
			if u.condPhase == 1 && u.waitCond == key && !u.signaled {
				ws = append(ws, u)
			}
		}
		if len(ws) == 0 {
			return nil
		}
		ws[e.choose(st, len(ws), "signal")].signaled = true
		return nil
	}
	// ---- sync.WaitGroup (counter kept in an engine-side table keyed by address) ----
	intrinsics["(*sync.WaitGroup).Add"] = func(e *Engine, st *State, th *Thread, args []Value, pos token.Pos) Value {
		p := args[0].(Ptr)
		d := e.concInt(st, args[1].(*Term))
		n := wgGet(e, st, p) + d
		if n < 0 {
			panic(goPanic{"sync: negative WaitGroup counter"})
		}
		wgSet(e, st, p, n)
		e.release(st, th, "wg:"+p.key())
		return nil
	}
	intrinsics["(*sync.WaitGroup).Done"] = func(e *Engine, st *State, th *Thread, args []Value, pos token.Pos) Value {
		p := args[0].(Ptr)
		n := wgGet(e, st, p) - 1
		if n < 0 {
			panic(goPanic{"sync: negative WaitGroup counter"})
		}
		wgSet(e, st, p, n)
		e.release(st, th, "wg:"+p.key())
		return nil
	}
	intrinsics["(*sync.WaitGroup).Wait"] = func(e *Engine, st *State, th *Thread, args []Value, pos token.Pos) Value {
		e.schedPoint(st, th, "WaitGroup.Wait", pos)
		th.granted = false
		e.acquire(st, th, "wg:"+args[0].(Ptr).key())
		return nil
	}
	visibleCalls["(*sync.WaitGroup).Wait"] = func(e *Engine, st *State, th *Thread, args []Value) bool {
		return wgGet(e, st, args[0].(Ptr)) == 0
	}

	// ---- sync/atomic ----
	for _, ty := range []string{"Uint32", "Int32", "Uint64", "Int64", "Uintptr"} {
		intrinsics["sync/atomic.Load"+ty] = atomicLoad
		visibleCalls["sync/atomic.Load"+ty] = nil
		intrinsics["sync/atomic.Store"+ty] = atomicStore
		intrinsics["sync/atomic.Add"+ty] = atomicAdd
		visibleCalls["sync/atomic.Add"+ty] = nil
		intrinsics["sync/atomic.Swap"+ty] = atomicSwap
		visibleCalls["sync/atomic.Swap"+ty] = nil
		intrinsics["sync/atomic.CompareAndSwap"+ty] = atomicCAS
		visibleCalls["sync/atomic.CompareAndSwap"+ty] = nil
	}
	intrinsics["sync/atomic.LoadPointer"] = atomicLoad
	visibleCalls["sync/atomic.LoadPointer"] = nil
	intrinsics["sync/atomic.StorePointer"] = atomicStore
	intrinsics["sync/atomic.SwapPointer"] = atomicSwap
	visibleCalls["sync/atomic.SwapPointer"] = nil
	intrinsics["sync/atomic.CompareAndSwapPointer"] = atomicCAS
	visibleCalls["sync/atomic.CompareAndSwapPointer"] = nil

	// ---- misc runtime ----
	intrinsics["runtime/trace.IsEnabled"] = func(e *Engine, st *State, th *Thread, args []Value, pos token.Pos) Value {
		return e.ts.False
	}
	intrinsics["runtime.Callers"] = func(e *Engine, st *State, th *Thread, args []Value, pos token.Pos) Value {
		return e.i64(0)
	}
	intrinsics["runtime.Gosched"] = func(e *Engine, st *State, th *Thread, args []Value, pos token.Pos) Value {
		return nil
	}
	intrinsics["runtime.KeepAlive"] = func(e *Engine, st *State, th *Thread, args []Value, pos token.Pos) Value {
		return nil
	}
	intrinsics["math/bits.Len64"] = func(e *Engine, st *State, th *Thread, args []Value, pos token.Pos) Value {
		x := args[0].(*Term)
		r := e.i64(0)
		for i := 0; i < 64; i++ {
			bit := e.ts.Extract(x, i, i)
			r = e.ts.Ite(e.ts.Eq(bit, e.ts.BV(1, 1)), e.i64(uint64(i+1)), r)
		}
		return r
	}
	intrinsics["math/bits.Len"] = intrinsics["math/bits.Len64"]
	intrinsics["time.Sleep"] = func(e *Engine, st *State, th *Thread, args []Value, pos token.Pos) Value {
		e.schedPoint(st, th, "sleep", pos)
		th.granted = false
		return nil
	}
	visibleCalls["time.Sleep"] = nil
}

func (e *Engine) symBytes(st *State, name string, max int, symLen bool) Value {
	m := make(map[int]Value, max)
	for i := 0; i < max; i++ {
		m[i] = e.freshVar(st, fmt.Sprintf("%s[%d]", name, i), 8)
	}
	obj := st.alloc(&ArrV{n: max, def: e.ts.BV(8, 0), m: m})
	ln := e.i64(uint64(max))
	if symLen {
		ln = e.freshVar(st, name+".len", 64)
		c := e.ts.Ule(ln, e.i64(uint64(max)))
		e.pushPC(st, c)
	}
	return SliceV{obj: obj, off: e.i64(0), len: ln, cap: e.i64(uint64(max))}
}

// sync.Mutex layout: struct{state int32; sema uint32}. state: 0 free, 1 held. sema: owner+1.
func mutexFree(e *Engine, st *State, p Ptr) bool {
	s := st.load(p.extend(0)).(*Term)
	return s.IsConst() && s.val == 0
}

func mutexSet(e *Engine, st *State, p Ptr, held bool, owner int) {
	if held {
		st.store(p.extend(0), e.ts.BV(32, 1))
		st.store(p.extend(1), e.ts.BV(32, uint64(owner+1)))
	} else {
		st.store(p.extend(0), e.ts.BV(32, 0))
		st.store(p.extend(1), e.ts.BV(32, 0))
	}
}

// mutexOwner returns the owning thread id or -1.
func mutexOwner(e *Engine, st *State, p Ptr) int {
	if mutexFree(e, st, p) {
		return -1
	}
	return int(st.load(p.extend(1)).(*Term).val) - 1
}

// sync.Cond layout: struct{noCopy; L Locker; notify; checker}
func condLocker(e *Engine, st *State, p Ptr) Ptr {
	l := st.load(p.extend(1)).(IfaceV)
	if l.t == nil {
		panic(goPanic{"sync.Cond with nil L"})
	}
	lp, ok := l.v.(Ptr)
	if !ok {
		panic(engErr("sync.Cond.L of unsupported type %v", l.t))
	}
	if l.t.String() != "*sync.Mutex" {
		panic(engErr("sync.Cond.L of unsupported type %v", l.t))
	}
	return lp
}

// WaitGroup counter lives in the first word of the struct we can reach generically:
// we keep it in a per-state side table stored in the heap object 'wg:<key>'.
func wgGet(e *Engine, st *State, p Ptr) int {
	v, ok := st.names["$wg:"+p.key()]
	if !ok {
		return 0
	}
	return v
}

func wgSet(e *Engine, st *State, p Ptr, n int) {
	st.names["$wg:"+p.key()] = n
}

func atomicLoad(e *Engine, st *State, th *Thread, args []Value, pos token.Pos) Value {
	e.schedPoint(st, th, "atomic.Load", pos)
	th.granted = false
	e.acquire(st, th, "at:"+args[0].(Ptr).key())
	return st.load(args[0].(Ptr))
}

func atomicStore(e *Engine, st *State, th *Thread, args []Value, pos token.Pos) Value {
	if e.fine {
		e.schedPoint(st, th, "atomic.Store", pos)
		th.granted = false
	}
	e.release(st, th, "at:"+args[0].(Ptr).key())
	st.store(args[0].(Ptr), args[1])
	return nil
}

func atomicAdd(e *Engine, st *State, th *Thread, args []Value, pos token.Pos) Value {
	e.schedPoint(st, th, "atomic.Add", pos)
	th.granted = false
	p := args[0].(Ptr)
	e.syncOn(st, th, "at:"+p.key())
	n := e.ts.Bin(OpAdd, st.load(p).(*Term), args[1].(*Term))
	st.store(p, n)
	return n
}

func atomicSwap(e *Engine, st *State, th *Thread, args []Value, pos token.Pos) Value {
	e.schedPoint(st, th, "atomic.Swap", pos)
	th.granted = false
	p := args[0].(Ptr)
	e.syncOn(st, th, "at:"+p.key())
	old := st.load(p)
	st.store(p, args[1])
	return old
}

func atomicCAS(e *Engine, st *State, th *Thread, args []Value, pos token.Pos) Value {
	e.schedPoint(st, th, "atomic.CAS", pos)
	p := args[0].(Ptr)
	old := st.load(p)
	eq := e.valEq(st, old, args[1])
	ok := e.decide(st, eq)
	th.granted = false
	e.syncOn(st, th, "at:"+p.key())
	if ok {
		st.store(p, args[2])
	}
	return e.ts.Bool(ok)
}
