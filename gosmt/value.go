package main

import (
	"fmt"
	"go/types"
	"sort"
	"strings"

	"golang.org/x/tools/go/ssa"
)

// Value kinds. All values are immutable; heap objects hold a Value that is
// replaced functionally on write.
type Value interface{}

// *Term         ints (w>0) and bools (w==0)
type Ptr struct {
	obj  int   // 0 = nil
	path []int // path into the object's value tree
	sym  *Term // optional symbolic final index (element of the array at path)
}

type SliceV struct {
	obj           int   // heap id of the object holding the backing ArrV; 0 = nil slice
	path          []int // where the backing array sits inside that object (empty: the object itself)
	off, len, cap *Term
}

type StrV struct {
	arr *ArrV // immutable content (elements are BV8 terms)
	off *Term
	len *Term
}

// ArrV is an immutable sparse array.
type ArrV struct {
	n   int
	def Value
	m   map[int]Value
}

type StructV struct{ f []Value }

type IfaceV struct {
	t types.Type // nil => nil interface
	v Value
}

type FuncV struct {
	fn    *ssa.Function
	binds []Value
	bi    *ssa.Builtin
}

type MapV struct{ obj int }  // 0 = nil map
type ChanV struct{ obj int } // 0 = nil chan
type TupleV []Value

// Opaque is the result of un-modelled calls; using it is an engine error.
type Opaque struct{ what string }

// heap object payloads for maps and channels
type MapData struct {
	keys []Value
	vals []Value
}

type ChanData struct {
	cap    int
	buf    []Value
	closed bool
	elem   types.Type
}

// RangeIter state for map/string iteration
type IterV struct {
	keys []Value
	vals []Value
	pos  int
	str  *StrV
}

func (a *ArrV) get(i int) Value {
	if v, ok := a.m[i]; ok {
		return v
	}
	return a.def
}

func (a *ArrV) set(i int, v Value) *ArrV {
	m := make(map[int]Value, len(a.m)+1)
	for k, x := range a.m {
		m[k] = x
	}
	m[i] = v
	return &ArrV{n: a.n, def: a.def, m: m}
}

func (a *ArrV) setMany(idx []int, vals []Value) *ArrV {
	m := make(map[int]Value, len(a.m)+len(idx))
	for k, x := range a.m {
		m[k] = x
	}
	for i, k := range idx {
		m[k] = vals[i]
	}
	return &ArrV{n: a.n, def: a.def, m: m}
}

func (a *ArrV) keys() []int {
	ks := make([]int, 0, len(a.m))
	for k := range a.m {
		ks = append(ks, k)
	}
	sort.Ints(ks)
	return ks
}

func isNilPtr(p Ptr) bool { return p.obj == 0 }

func pathEq(a, b []int) bool {
	if len(a) != len(b) {
		return false
	}
	for i := range a {
		if a[i] != b[i] {
			return false
		}
	}
	return true
}

func (p Ptr) extend(i int) Ptr {
	if p.sym != nil {
		panic(engErr("extend of symbolic-index pointer"))
	}
	np := make([]int, len(p.path)+1)
	copy(np, p.path)
	np[len(p.path)] = i
	return Ptr{obj: p.obj, path: np}
}

func (p Ptr) key() string {
	var sb strings.Builder
	fmt.Fprintf(&sb, "%d", p.obj)
	for _, x := range p.path {
		fmt.Fprintf(&sb, ".%d", x)
	}
	return sb.String()
}

// ---- type helpers ----

func intWidth(t types.Type) (w int, signed bool, ok bool) {
	b, isB := t.Underlying().(*types.Basic)
	if !isB {
		return 0, false, false
	}
	switch b.Kind() {
	case types.Bool, types.UntypedBool:
		return 0, false, true
	case types.Int8:
		return 8, true, true
	case types.Int16:
		return 16, true, true
	case types.Int32, types.UntypedRune:
		return 32, true, true
	case types.Int64, types.Int, types.UntypedInt:
		return 64, true, true
	case types.Uint8:
		return 8, false, true
	case types.Uint16:
		return 16, false, true
	case types.Uint32:
		return 32, false, true
	case types.Uint64, types.Uint, types.Uintptr:
		return 64, false, true
	}
	return 0, false, false
}

func isString(t types.Type) bool {
	b, ok := t.Underlying().(*types.Basic)
	return ok && (b.Kind() == types.String || b.Kind() == types.UntypedString)
}

func isUnsafePointer(t types.Type) bool {
	b, ok := t.Underlying().(*types.Basic)
	return ok && b.Kind() == types.UnsafePointer
}

func isInterface(t types.Type) bool {
	_, ok := t.Underlying().(*types.Interface)
	return ok
}

func (e *Engine) strConst(s string) *StrV {
	m := make(map[int]Value, len(s))
	for i := 0; i < len(s); i++ {
		m[i] = e.ts.BV(8, uint64(s[i]))
	}
	return &StrV{arr: &ArrV{n: len(s), def: e.ts.BV(8, 0), m: m}, off: e.i64(0), len: e.i64(uint64(len(s)))}
}

func (e *Engine) i64(v uint64) *Term { return e.ts.BV(64, v) }

// zero returns the zero value of a type.
func (e *Engine) zero(t types.Type) Value {
	switch u := t.Underlying().(type) {
	case *types.Basic:
		if w, _, ok := intWidth(t); ok {
			if w == 0 {
				return e.ts.False
			}
			return e.ts.BV(w, 0)
		}
		if isString(t) {
			return e.strConst("")
		}
		if u.Kind() == types.UnsafePointer {
			return Ptr{}
		}
		if u.Kind() == types.UntypedNil {
			return nil
		}
		if u.Kind() == types.Float64 || u.Kind() == types.Float32 || u.Kind() == types.UntypedFloat {
			return Opaque{"float"}
		}
		panic(engErr("zero: unsupported basic type %v", t))
	case *types.Pointer:
		return Ptr{}
	case *types.Slice:
		return SliceV{off: e.i64(0), len: e.i64(0), cap: e.i64(0)}
	case *types.Struct:
		f := make([]Value, u.NumFields())
		for i := range f {
			f[i] = e.zero(u.Field(i).Type())
		}
		return &StructV{f: f}
	case *types.Array:
		return &ArrV{n: int(u.Len()), def: e.zero(u.Elem())}
	case *types.Interface:
		return IfaceV{}
	case *types.Signature:
		return FuncV{}
	case *types.Map:
		return MapV{}
	case *types.Chan:
		return ChanV{}
	case *types.Tuple:
		tv := make(TupleV, u.Len())
		for i := range tv {
			tv[i] = e.zero(u.At(i).Type())
		}
		return tv
	}
	panic(engErr("zero: unsupported type %v", t))
}

type EngineError struct{ msg string }

func (e EngineError) Error() string { return e.msg }

func engErr(format string, args ...interface{}) EngineError {
	return EngineError{fmt.Sprintf(format, args...)}
}

func describe(v Value) string {
	switch x := v.(type) {
	case *Term:
		return x.String()
	case Ptr:
		return "ptr(" + x.key() + ")"
	case SliceV:
		return fmt.Sprintf("slice(obj=%d off=%v len=%v cap=%v)", x.obj, x.off, x.len, x.cap)
	case *StrV:
		return fmt.Sprintf("str(len=%v)", x.len)
	case *StructV:
		return fmt.Sprintf("struct(%d)", len(x.f))
	case IfaceV:
		if x.t == nil {
			return "iface(nil)"
		}
		return "iface(" + x.t.String() + ")"
	case nil:
		return "nil"
	}
	return fmt.Sprintf("%T", v)
}
