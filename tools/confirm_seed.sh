#!/bin/bash
# usage: confirm_seed.sh <worktree> <seeddir-name> <out-id>
# Confirms a seeded change: applies, builds, runs the root test-suite (must pass), runs the
# demo (must fail); reverts, runs the demo (must pass). Copies into /verif/seeded/<out-id>/.
set -u
export GOFLAGS=-mod=mod GOPROXY=off GOSUMDB=off GOTOOLCHAIN=local
WT=$1; SD=$2; ID=$3
cd "$WT" || exit 2
git checkout -q -- . ; git clean -fdq -e seed1 -e seed2 -e seed3 >/dev/null 2>&1
META="$WT/$SD/meta.json"
PKGDIR=$(python3 -c "import json;print(json.load(open('$META')).get('demo_pkg_dir','').strip('/').replace('./',''))")
DEMO=$(ls "$WT/$SD"/*_test.go 2>/dev/null | head -1)
[ -z "$DEMO" ] && { echo "RESULT $ID no demo test file"; exit 1; }
TAGS=""
grep -q "go:build seeddemo" "$DEMO" && TAGS="-tags seeddemo"
TMPMOVE=$(mktemp -d)
mv "$WT"/seed* "$TMPMOVE"/
restore() { mv "$TMPMOVE"/seed* "$WT"/ 2>/dev/null; rmdir "$TMPMOVE" 2>/dev/null; }
cp "$TMPMOVE/$SD/$(basename $DEMO)" "$WT/$PKGDIR/zz_seeddemo_test.go"
# clean tree: demo passes
go test -vet=off -count=1 -timeout 180s $TAGS -run 'Seed|Demo' ./$PKGDIR/ > /tmp/confirm_$ID.clean.log 2>&1; CLEAN=$?
rm -f "$WT/$PKGDIR/zz_seeddemo_test.go"
git apply "$TMPMOVE/$SD/patch.diff" || { echo "RESULT $ID patch does not apply"; restore; exit 1; }
go build ./... > /tmp/confirm_$ID.build.log 2>&1; BUILD=$?
go test -vet=off -count=1 -timeout 25m ./... > /tmp/confirm_$ID.suite.log 2>&1; SUITE=$?
cp "$TMPMOVE/$SD/$(basename $DEMO)" "$WT/$PKGDIR/zz_seeddemo_test.go"
go test -vet=off -count=1 -timeout 180s $TAGS -run 'Seed|Demo' ./$PKGDIR/ > /tmp/confirm_$ID.mut.log 2>&1; MUT=$?
rm -f "$WT/$PKGDIR/zz_seeddemo_test.go"
git checkout -q -- .
restore
OK=no
if [ $CLEAN -eq 0 ] && [ $BUILD -eq 0 ] && [ $SUITE -eq 0 ] && [ $MUT -ne 0 ]; then OK=yes; fi
echo "RESULT $ID confirmed=$OK demo_clean_exit=$CLEAN build_exit=$BUILD suite_exit=$SUITE demo_mutated_exit=$MUT"
if [ $OK = yes ]; then
  mkdir -p /verif/seeded/$ID
  cp "$WT/$SD/patch.diff" /verif/seeded/$ID/
  cp "$DEMO" /verif/seeded/$ID/demo_test.go.txt
  python3 - <<PY
import json
m=json.load(open("$META"))
m["confirmed_by"]="tools/confirm_seed.sh: demo passes on clean tree (exit $CLEAN); with patch: go build ok, root-module 'go test -vet=off -count=1 ./...' passes (exit $SUITE), demo fails (exit $MUT)"
m["demo_file"]="demo_test.go.txt (copy into "+m.get("demo_pkg_dir","")+" as *_test.go)"
json.dump(m,open("/verif/seeded/$ID/meta.json","w"),indent=1)
PY
fi
