package drpcconn

import (
	"context"

	"storj.io/drpc/drpcmanager"
	"storj.io/drpc/drpcwire"
	vrt "storj.io/drpc/internal/verifrt"
	"storj.io/drpc/internal/verifrt/hx"
)

// VerifH_ClientNextRPC: client side with soft cancel. RPC 1 is soft-cancelled while the
// transport stalls the cancel packet; in that window RPC 2 is issued and (symbolically)
// either cancelled while it waits for RPC 1 to finish or left waiting; then the transport
// resumes. Afterwards a probe RPC must complete on the still-open connection.
func VerifH_ClientNextRPC() {
	tr := &hx.Transport{}
	gate := false
	conn := NewWithOptions(tr, Options{Manager: drpcmanager.Options{SoftCancel: true}})
	enc := hx.ByteEnc{}
	ctx1 := hx.NewCtx()
	cancel2 := vrt.Bool("cancelSecondWhileWaiting")
	stallCancel := vrt.Bool("stallCancelPacket")
	vrt.Tag("second-rpc-cancelled-while-waiting", cancel2)

	s1, err := conn.NewStream(ctx1, "rpc1", enc)
	vrt.Assert(err == nil && s1 != nil, "RPC 1 starts")
	if stallCancel {
		tr.Gate = &gate
	}
	ctx1.Cancel(context.Canceled)
	vrt.Quiesce() // watcher has released the semaphore; the cancel packet is parked (if stalled)

	ctx2 := hx.NewCtx()
	var err2 error
	done2 := false
	go func() {
		s2, e := conn.NewStream(ctx2, "rpc2", enc)
		err2 = e
		if e == nil {
			_ = s2.Close()
		}
		done2 = true
	}()
	vrt.Quiesce()
	if stallCancel {
		vrt.Assert(!done2, "RPC 2 waits for RPC 1 to finish")
		if cancel2 {
			ctx2.Cancel(context.Canceled)
			vrt.Quiesce()
			vrt.Assert(done2 && err2 == context.Canceled, "a waiting NewStream returns when its own context is cancelled")
		}
		gate = true
		vrt.Quiesce()
	}
	vrt.Assert(done2, "RPC 2 returns once RPC 1 has finished")
	vrt.Assert(!hx.IsClosedCh(conn.Closed()), "soft cancels with nothing else in flight leave the connection open")
	if !hx.IsClosedCh(conn.Closed()) {
		vrt.Assert(hx.IsClosedCh(conn.Unblocked()), "an open connection is unblocked")
		// probe: next stream id is 2 if RPC 2 never got a stream, else 3
		for sid := uint64(2); sid <= 3; sid++ {
			tr.Feed(hx.Pkt(drpcwire.KindMessage, sid, 1, false, []byte{0x42}))
			tr.Feed(hx.Pkt(drpcwire.KindCloseSend, sid, 2, false, nil))
		}
		in := []byte{1}
		var resp []byte
		var perr error
		pdone := false
		go func() { perr = conn.Invoke(hx.NewCtx(), "probe", enc, &in, &resp); pdone = true }()
		vrt.Quiesce()
		vrt.Assert(pdone, "the probe RPC on the healthy-looking connection completes")
		if pdone {
			vrt.Assert(perr == nil && len(resp) == 1 && resp[0] == 0x42, "the probe RPC gets its response")
		}
		vrt.Cover("client-probe-done")
	} else {
		vrt.Cover("client-closed")
	}
	conn.Close()
}
