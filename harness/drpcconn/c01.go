package drpcconn

import (
	"storj.io/drpc/drpcstream"
	"storj.io/drpc/drpcwire"
	vrt "storj.io/drpc/internal/verifrt"
	"storj.io/drpc/internal/verifrt/hx"
)

// VerifH_NextRPCAfterUnflushed: RPC 1 leaves bytes buffered in the connection's shared frame
// writer (a raw write that was never flushed) and is then ended by the peer (close, error
// or cancel). RPC 2 on the same connection: its invoke and every message whose send
// succeeded (automatic flushing) are completely on the transport when the call returns,
// in order, under RPC 2's stream id.
func VerifH_NextRPCAfterUnflushed() {
	tr := &hx.Transport{}
	conn := New(tr)
	enc := hx.ByteEnc{}
	st1, err := conn.NewStream(hx.NewCtx(), "one", enc)
	vrt.Assert(err == nil, "RPC 1 starts")
	raw := st1.(*drpcstream.Stream)
	if vrt.Bool("leftover") {
		vrt.Assert(raw.RawWrite(drpcwire.KindMessage, []byte{0xEE, 0xEF}) == nil, "raw write is buffered")
	}
	switch vrt.Choice("end", 3) {
	case 0:
		tr.Feed(hx.Pkt(drpcwire.KindClose, 1, 1, false, nil))
	case 1:
		tr.Feed(hx.Pkt(drpcwire.KindError, 1, 1, false, []byte{0, 0, 0, 0, 0, 0, 0, 7, 'x'}))
	case 2:
		tr.Feed(hx.Pkt(drpcwire.KindCancel, 1, 1, true, nil))
	}
	vrt.Quiesce()
	vrt.Assert(!hx.IsClosedCh(conn.Closed()), "the peer ending RPC 1 leaves the connection open")
	if hx.IsClosedCh(conn.Closed()) {
		return
	}
	mark := len(tr.Out)
	st2, err := conn.NewStream(hx.NewCtx(), "two", enc)
	vrt.Assert(err == nil, "RPC 2 starts on the reused connection")
	if err != nil {
		return
	}
	n := vrt.Int("n")
	vrt.Assume(n >= 1 && n <= 2)
	for i := 0; i < n; i++ {
		m := []byte{byte(0x50 + i)}
		vrt.Assert(st2.MsgSend(&m, enc) == nil, "send on RPC 2 succeeds")
		// everything sent so far must already be on the transport
		pkts, ok := hx.ParseOut(tr.Out[mark:])
		vrt.Assert(ok, "output after RPC 1 is well-formed")
		sawInvoke := false
		msgs := 0
		for _, p := range pkts {
			if p.Sid != 2 {
				continue
			}
			if p.Kind == drpcwire.KindInvoke {
				sawInvoke = string(p.Data) == "two"
			}
			if p.Kind == drpcwire.KindMessage {
				vrt.Assert(sawInvoke, "the invoke precedes the messages")
				vrt.Assert(len(p.Data) == 1 && p.Data[0] == byte(0x50+msgs), "messages of RPC 2 are intact and in order")
				msgs++
			}
		}
		vrt.Assert(sawInvoke, "RPC 2's invoke is on the transport")
		vrt.Assert(msgs == i+1, "every message whose send succeeded is on the transport without a further call")
	}
	vrt.Cover("unflushed-end")
	conn.Close()
}
