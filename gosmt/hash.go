package main

// State hashing for duplicate pruning in schedule exploration: two states with
// the same hash have identical heaps, thread stacks, scheduler bookkeeping and
// path conditions, so exploring one of them suffices. Object ids are not
// canonicalised (states that differ only in allocation order are not merged),
// which costs pruning but never soundness.

import (
	"encoding/binary"
	"fmt"
	"hash"
	"hash/fnv"
	"sort"
	"strings"
	"sync"
)

type hasher struct {
	h     hash.Hash64
	buf   [8]byte
	canon map[int]uint64 // heap object id -> canonical number (order of first visit)
	queue []int          // objects whose content still has to be hashed
}

// obj returns the canonical number of a heap object, scheduling its content for hashing
// on first visit. Unreachable objects never get a number, so garbage and allocation
// order do not distinguish states.
func (x *hasher) obj(id int) uint64 {
	if id == 0 {
		return 0
	}
	if c, ok := x.canon[id]; ok {
		return c
	}
	c := uint64(len(x.canon) + 1)
	x.canon[id] = c
	x.queue = append(x.queue, id)
	return c
}

func (x *hasher) u64(v uint64) {
	binary.LittleEndian.PutUint64(x.buf[:], v)
	x.h.Write(x.buf[:])
}

func (x *hasher) str(s string) {
	x.u64(uint64(len(s)))
	x.h.Write([]byte(s))
}

func (e *Engine) fnID(fn interface{}) uint64 {
	e.sh.mu.Lock()
	defer e.sh.mu.Unlock()
	if e.sh.ptrIDs == nil {
		e.sh.ptrIDs = map[interface{}]uint64{}
	}
	id, ok := e.sh.ptrIDs[fn]
	if !ok {
		id = uint64(len(e.sh.ptrIDs) + 1)
		e.sh.ptrIDs[fn] = id
	}
	return id
}

func (e *Engine) hashValue(x *hasher, v Value) {
	switch t := v.(type) {
	case nil:
		x.u64(1)
	case *Term:
		x.u64(2)
		x.u64(uint64(t.id))
	case Ptr:
		x.u64(3)
		x.u64(x.obj(t.obj))
		x.u64(uint64(len(t.path)))
		for _, p := range t.path {
			x.u64(uint64(p))
		}
		if t.sym != nil {
			x.u64(uint64(t.sym.id))
		}
	case SliceV:
		x.u64(4)
		x.u64(x.obj(t.obj))
		for _, p := range t.path {
			x.u64(uint64(p) + 1)
		}
		x.u64(uint64(t.off.id))
		x.u64(uint64(t.len.id))
		x.u64(uint64(t.cap.id))
	case *StrV:
		x.u64(5)
		x.u64(uint64(t.off.id))
		x.u64(uint64(t.len.id))
		e.hashValue(x, t.arr)
	case *ArrV:
		x.u64(6)
		x.u64(uint64(t.n))
		e.hashValue(x, t.def)
		ks := t.keys()
		x.u64(uint64(len(ks)))
		for _, k := range ks {
			x.u64(uint64(k))
			e.hashValue(x, t.m[k])
		}
	case *StructV:
		x.u64(7)
		x.u64(uint64(len(t.f)))
		for _, f := range t.f {
			e.hashValue(x, f)
		}
	case IfaceV:
		x.u64(8)
		if t.t == nil {
			x.u64(0)
		} else {
			x.u64(e.typeID(t.t))
			e.hashValue(x, t.v)
		}
	case FuncV:
		x.u64(9)
		if t.fn != nil {
			x.u64(e.fnID(t.fn))
		} else if t.bi != nil {
			x.str(t.bi.Name())
		} else {
			x.u64(0)
		}
		x.u64(uint64(len(t.binds)))
		for _, b := range t.binds {
			e.hashValue(x, b)
		}
	case MapV:
		x.u64(10)
		x.u64(x.obj(t.obj))
	case ChanV:
		x.u64(11)
		x.u64(x.obj(t.obj))
	case TupleV:
		x.u64(12)
		x.u64(uint64(len(t)))
		for _, f := range t {
			e.hashValue(x, f)
		}
	case *MapData:
		x.u64(13)
		x.u64(uint64(len(t.keys)))
		for i := range t.keys {
			e.hashValue(x, t.keys[i])
			e.hashValue(x, t.vals[i])
		}
	case *ChanData:
		x.u64(14)
		x.u64(uint64(t.cap))
		if t.closed {
			x.u64(1)
		} else {
			x.u64(0)
		}
		x.u64(uint64(len(t.buf)))
		for _, b := range t.buf {
			e.hashValue(x, b)
		}
	case *IterV:
		x.u64(15)
		x.u64(uint64(t.pos))
		x.u64(uint64(len(t.keys)))
		for i := range t.keys {
			e.hashValue(x, t.keys[i])
			e.hashValue(x, t.vals[i])
		}
		if t.str != nil {
			e.hashValue(x, t.str)
		}
	case Opaque:
		x.u64(16)
		x.str(t.what)
	default:
		x.u64(99)
	}
}

func (e *Engine) typeID(t interface{ String() string }) uint64 {
	s := t.String()
	e.sh.mu.Lock()
	defer e.sh.mu.Unlock()
	if e.sh.typeIDs == nil {
		e.sh.typeIDs = map[string]uint64{}
	}
	id, ok := e.sh.typeIDs[s]
	if !ok {
		id = uint64(len(e.sh.typeIDs) + 1)
		e.sh.typeIDs[s] = id
	}
	return id
}

// canonKey rewrites a pointer key ("obj.path...") with the canonical object number.
func (x *hasher) canonKey(k string) string {
	i := 0
	for i < len(k) && k[i] >= '0' && k[i] <= '9' {
		i++
	}
	if i == 0 {
		return k
	}
	id := 0
	for _, c := range k[:i] {
		id = id*10 + int(c-'0')
	}
	return fmt.Sprintf("#%d%s", x.obj(id), k[i:])
}

func (e *Engine) hashState(st *State) uint64 {
	x := &hasher{h: fnv.New64a(), canon: map[int]uint64{}}
	x.u64(uint64(st.cur))
	x.u64(uint64(int64(st.budget)))
	// path condition as the sequence of term ids
	for q := st.pc; q != nil; q = q.parent {
		x.u64(uint64(q.t.id))
	}
	// roots: thread stacks
	x.u64(uint64(len(st.threads)))
	for _, th := range st.threads {
		flags := uint64(0)
		if th.finished {
			flags |= 1
		}
		if th.granted {
			flags |= 2
		}
		if th.started {
			flags |= 4
		}
		if th.signaled {
			flags |= 8
		}
		x.u64(flags)
		x.u64(uint64(th.condPhase))
		x.str(x.canonKey(th.waitCond))
		if th.wake != nil {
			x.u64(uint64(th.wake.caseIdx) + 1)
			e.hashValue(x, th.wake.val)
		} else {
			x.u64(0)
		}
		x.u64(uint64(len(th.frames)))
		for _, fr := range th.frames {
			x.u64(e.fnID(fr.fn))
			x.u64(uint64(fr.block.Index))
			x.u64(uint64(fr.pc))
			if fr.inDefers {
				x.u64(1)
			} else {
				x.u64(0)
			}
			for _, r := range fr.regs {
				e.hashValue(x, r)
			}
			x.u64(uint64(len(fr.defers)))
			for _, d := range fr.defers {
				e.hashValue(x, d.fn)
				for _, a := range d.args {
					e.hashValue(x, a)
				}
			}
		}
	}
	// roots: globals (in a stable order)
	type gl struct {
		name string
		id   int
	}
	var gls []gl
	for g, id := range e.globals {
		gls = append(gls, gl{g.String(), id})
	}
	for g, id := range st.globals {
		gls = append(gls, gl{g.String(), id})
	}
	sort.Slice(gls, func(i, j int) bool { return gls[i].name < gls[j].name })
	for _, g := range gls {
		x.str(g.name)
		x.u64(x.obj(g.id))
	}
	// side tables kept in names (wait-group counters keyed by pointer, choice / fresh-name counters)
	ks := make([]string, 0, len(st.names))
	for k := range st.names {
		ks = append(ks, k)
	}
	sort.Strings(ks)
	var side []string
	for _, k := range ks {
		if strings.HasPrefix(k, "$wg:") {
			if st.names[k] != 0 {
				side = append(side, "$wg:"+x.canonKey(k[4:])+fmt.Sprintf("=%d", st.names[k]))
			}
			continue
		}
		if k == "$choice" {
			continue // only names future fresh choice variables
		}
		side = append(side, fmt.Sprintf("%s=%d", k, st.names[k]))
	}
	sort.Strings(side)
	for _, k := range side {
		x.str(k)
	}
	tg := append([]string(nil), st.tags...)
	sort.Strings(tg)
	for _, t := range tg {
		x.str(t)
	}
	if len(st.shared) > 0 {
		var sh []uint64
		for id := range st.shared {
			sh = append(sh, x.obj(id))
		}
		sort.Slice(sh, func(i, j int) bool { return sh[i] < sh[j] })
		for _, v := range sh {
			x.u64(v)
		}
	}
	// reachable heap, in canonical order
	for i := 0; i < len(x.queue); i++ {
		id := x.queue[i]
		x.u64(0xfeed)
		if id < len(st.heap) {
			e.hashValue(x, st.heap[id])
		}
	}
	return x.h.Sum64()
}

type visitedSet struct {
	mu sync.Mutex
	m  map[uint64]struct{}
}

// seen records the state and reports whether an identical one was recorded before.
func (e *Engine) seenState(st *State) bool {
	if !e.cfg.Dedup {
		return false
	}
	h := e.hashState(st)
	v := e.sh.visited
	v.mu.Lock()
	defer v.mu.Unlock()
	if _, ok := v.m[h]; ok {
		return true
	}
	v.m[h] = struct{}{}
	return false
}
