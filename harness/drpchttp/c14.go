package drpchttp

import (
	"io"
	"net/http"

	"storj.io/drpc/drpcerr"
	"storj.io/drpc/drpcmetadata"
	vrt "storj.io/drpc/internal/verifrt"
	"storj.io/drpc/internal/verifrt/hx"
)

// ---- reference percent-decoder ----

func refHex(c byte) (byte, bool) {
	switch {
	case c >= '0' && c <= '9':
		return c - '0', true
	case c >= 'a' && c <= 'f':
		return c - 'a' + 10, true
	case c >= 'A' && c <= 'F':
		return c - 'A' + 10, true
	}
	return 0, false
}

// refUnescape: error iff some '%' is not followed by two hex digits.
func refUnescape(s string) (out []byte, ok bool) {
	for i := 0; i < len(s); i++ {
		if s[i] != '%' {
			out = append(out, s[i])
			continue
		}
		if i+2 >= len(s)+0 && i+2 > len(s)-1 {
			return nil, false
		}
		hi, ok1 := refHex(s[i+1])
		lo, ok2 := refHex(s[i+2])
		if !ok1 || !ok2 {
			return nil, false
		}
		out = append(out, hi<<4|lo)
		i += 2
	}
	return out, true
}

func strEqBytes(s string, b []byte) bool {
	if len(s) != len(b) {
		return false
	}
	for i := range b {
		if s[i] != b[i] {
			return false
		}
	}
	return true
}

// VerifH_Unescape: for every string up to maxlen bytes unescape never panics and equals
// the reference percent-decoder.
func VerifH_Unescape() {
	s := vrt.Str("s", vrt.Param("maxlen", 5))
	vrt.Tag("more-percent-than-half", 2*countPct(s) > len(s))
	got, err := unescape(s)
	want, ok := refUnescape(s)
	vrt.Assert((err == nil) == ok, "unescape fails exactly when a % is not followed by two hex digits")
	if err == nil && ok {
		vrt.Assert(strEqBytes(got, want), "unescape equals the reference percent-decoder")
		vrt.Cover("unescape-ok")
	} else {
		vrt.Cover("unescape-error")
	}
}

func countPct(s string) int {
	n := 0
	for i := 0; i < len(s); i++ {
		if s[i] == '%' {
			n++
		}
	}
	return n
}

// VerifH_BuildContext: header entries decode as percent-encoded key=value pairs, split at
// the first '=', later entries override, any error yields no context.
func VerifH_BuildContext() {
	n := vrt.Int("n")
	vrt.Assume(n >= 1 && n <= 2)
	maxlen := vrt.Param("maxlen", 4)
	entries := []string{vrt.Str("e0", maxlen)}
	if n == 2 {
		entries = append(entries, vrt.Str("e1", maxlen))
	}
	tagged := false
	for _, e := range entries {
		if 2*countPct(e) > len(e) {
			tagged = true
		}
		for i := 0; i < len(e); i++ {
			if e[i] == '=' {
				if 2*countPct(e[:i]) > i || 2*countPct(e[i+1:]) > len(e)-i-1 {
					tagged = true
				}
				break
			}
		}
	}
	vrt.Tag("more-percent-than-half", tagged)
	ctx, err := buildContext(hx.NewCtx(), entries)
	// reference
	type kv struct{ k, v []byte }
	var want []kv
	refOK := true
	for _, e := range entries {
		idx := -1
		for i := 0; i < len(e); i++ {
			if e[i] == '=' {
				idx = i
				break
			}
		}
		var kb, vb []byte
		var ok1, ok2 bool
		if idx >= 0 {
			vb, ok2 = refUnescape(e[idx+1:])
			kb, ok1 = refUnescape(e[:idx])
		} else {
			kb, ok1 = refUnescape(e)
			ok2 = true
		}
		if !ok1 || !ok2 {
			refOK = false
			break
		}
		want = append(want, kv{kb, vb})
	}
	vrt.Assert((err == nil) == refOK, "buildContext fails exactly when some entry is not validly percent-encoded")
	if err != nil {
		vrt.Assert(ctx == nil, "no context on error")
		vrt.Cover("buildcontext-error")
		return
	}
	md, has := drpcmetadata.Get(ctx)
	vrt.Assert(has, "metadata is attached")
	for i, w := range want {
		overridden := false
		for _, w2 := range want[i+1:] {
			if string(w2.k) == string(w.k) {
				overridden = true
			}
		}
		if !overridden {
			got, ok := md[string(w.k)]
			vrt.Assert(ok && strEqBytes(got, w.v), "key maps to its decoded value")
		}
	}
	vrt.Assert(len(md) <= len(want), "no invented keys")
	vrt.Cover("buildcontext-ok")
}

// ---- body readers ----

// bodyReader serves `total` bytes (content irrelevant, left as zeros unless data is set).
type bodyReader struct {
	data  []byte
	total int
	pos   int
	reads int
}

func (r *bodyReader) Read(p []byte) (int, error) {
	r.reads++
	if r.pos >= r.total {
		return 0, io.EOF
	}
	n := len(p)
	if n > r.total-r.pos {
		n = r.total - r.pos
	}
	for i := 0; i < n && r.pos+i < len(r.data); i++ {
		p[i] = r.data[r.pos+i]
	}
	r.pos += n
	return n, nil
}

// VerifH_TwirpRead: body lengths around the limit: at most maxSize => exactly the body;
// more => an error (never a silently truncated body).
func VerifH_TwirpRead() {
	c := vrt.Int("lenClass")
	vrt.Assume(c >= 0 && c <= 5)
	L := []int{0, 3, maxSize - 1, maxSize, maxSize + 1, maxSize + 600}[c]
	vrt.Tag("body-over-limit", L > maxSize)
	r := &bodyReader{total: L, data: []byte{7, 8, 9}}
	data, err := twirpRead(r)
	if L <= maxSize {
		vrt.Assert(err == nil && len(data) == L, "a body within the limit is returned completely")
		if L == 3 && err == nil && len(data) == 3 {
			vrt.Assert(data[0] == 7 && data[1] == 8 && data[2] == 9, "body bytes intact")
		}
		vrt.Cover("twirpread-ok")
	} else {
		vrt.Assert(err != nil, "a body over the limit is rejected, never truncated")
		vrt.Cover("twirpread-over")
	}
}

// VerifH_GrpcRead: 5-byte header with symbolic flag and a size from boundary classes; body
// shorter / exact / longer than announced.
func VerifH_GrpcRead() {
	c := vrt.Int("sizeClass")
	vrt.Assume(c >= 0 && c <= 5)
	size := []uint32{0, 2, 3, maxSize, maxSize + 1, 0xffffffff}[c]
	avail := vrt.Int("avail")
	vrt.Assume(avail >= 0 && avail <= 4)
	hdr := []byte{vrt.U8("flag"), byte(size >> 24), byte(size >> 16), byte(size >> 8), byte(size)}
	body := []byte{1, 2, 3, 4}
	total := 5 + avail
	if size == maxSize {
		total = 5 + maxSize // exact-size body
	}
	r := &bodyReader{total: total, data: append(hdr, body...)}
	data, err := grpcRead(r)
	switch {
	case size > maxSize:
		vrt.Assert(err != nil && data == nil, "an announced size over the limit is rejected")
		vrt.Assert(r.pos == 5, "nothing beyond the header is read (or allocated) for an oversized message")
		vrt.Cover("grpcread-over")
	case int(size) > total-5:
		vrt.Assert(err == io.ErrUnexpectedEOF || (err != nil && total == 5 && size > 0), "a body shorter than announced is an unexpected EOF")
		vrt.Cover("grpcread-short")
	default:
		vrt.Assert(err == nil && len(data) == int(size), "exactly the announced bytes are returned")
		if size <= 3 && err == nil {
			for i := 0; i < int(size); i++ {
				vrt.Assert(data[i] == body[i], "body bytes intact")
			}
		}
		vrt.Cover("grpcread-ok")
	}
}

// ---- response side ----

type recRW struct {
	out    []byte
	status int
	hdr    http.Header
}

func (w *recRW) Header() http.Header         { return w.hdr }
func (w *recRW) Write(p []byte) (int, error) { w.out = append(w.out, p...); return len(p), nil }
func (w *recRW) WriteHeader(code int)        { w.status = code }

type codedErr struct {
	msg  string
	code uint64
}

func (e *codedErr) Error() string { return e.msg }
func (e *codedErr) Code() uint64  { return e.code }

type twirpErr struct{ msg, code string }

func (e *twirpErr) Error() string { return e.msg }
func (e *twirpErr) Code() string  { return e.code }

// oddCodeErr has a Code method that takes an argument: it must be ignored by getCode.
type oddCodeErr struct{ msg string }

func (e *oddCodeErr) Error() string           { return e.msg }
func (e *oddCodeErr) Code(lang string) string { return "odd:" + lang }

type wrapErr struct{ inner error }

func (e *wrapErr) Error() string { return "wrap" }
func (e *wrapErr) Unwrap() error { return e.inner }

type causeErr struct{ inner error }

func (e *causeErr) Error() string { return "cause" }
func (e *causeErr) Cause() error  { return e.inner }

type plainErr struct{ msg string }

func (e *plainErr) Error() string { return e.msg }

// pickByte returns one byte of a small concrete alphabet (letters, CR, LF, space, a
// non-ASCII byte, '%'), chosen by the solver; the choice is concretised by forking so that
// table-driven string code (strings.Replacer) runs on concrete bytes.
func pickByte() byte {
	return []byte{'a', '\r', '\n', ' ', 0xC3, '%'}[vrt.Choice("ch", 6)]
}

// pickMsg returns a message of 0..max bytes over pickByte's alphabet.
func pickMsg(max int) string {
	n := vrt.Choice("msglen", max+1)
	b := make([]byte, 0, max)
	for i := 0; i < n; i++ {
		b = append(b, pickByte())
	}
	return string(b)
}

// symErr builds an error from a symbolic shape; returns it and whether it is nil.
func symErr(depth int) error {
	var err error
	shape := vrt.Choice("shape", 6)
	switch shape {
	case 0:
		err = nil
	case 1:
		err = &plainErr{pickMsg(2)}
	case 2:
		c := vrt.Choice("codeClass", 4)
		err = &codedErr{pickMsg(2), []uint64{0, 1, 5, 1<<64 - 1}[c]}
	case 3:
		// a string code chosen by the application: plain, or hostile (CR/LF, spaces)
		code := []string{"not_found", "aborted\r\ngrpc-status: 0", "\n", " a\rb "}[vrt.Choice("strcode", 4)]
		err = &twirpErr{pickMsg(2), code}
	case 4:
		err = nil // wrapper around nil: Unwrap() returns nil
	case 5:
		err = &oddCodeErr{pickMsg(1)}
	}
	for i := 0; i < depth; i++ {
		w := vrt.Choice("wrap", 3)
		switch w {
		case 1:
			err = &wrapErr{err}
		case 2:
			err = &causeErr{err}
		}
	}
	return err
}

// VerifH_GetCode: getCode never panics for any wrapper chain (including Unwrap/Cause
// returning nil) and returns the first string code, else the drpcerr code, else "unknown".
func VerifH_GetCode() {
	err := symErr(vrt.Param("depth", 2))
	vrt.Assume(err != nil)
	hasNilInner := false
	var e error = err
	for i := 0; i < 4 && e != nil; i++ {
		switch v := e.(type) {
		case *wrapErr:
			e = v.inner
			if e == nil {
				hasNilInner = true
			}
		case *causeErr:
			e = v.inner
			if e == nil {
				hasNilInner = true
			}
		default:
			e = nil
		}
	}
	vrt.Tag("unwrap-returns-nil", hasNilInner)
	code := getCode(err)
	vrt.Assert(len(code) > 0, "getCode returns a code for every error")
	vrt.Cover("getcode-end")
}

// VerifH_GrpcWebFinish: the trailer frame: flag 0x80, big-endian length, then
// "grpc-status: N\r\n" and for failures grpc-code / grpc-message lines; N != "0" iff the
// RPC failed; CR and LF appear only as the line terminators (no injected lines).
func VerifH_GrpcWebFinish() {
	err := symErr(vrt.Param("depth", 1))
	rw := &recRW{}
	gws := &grpcWebStream{gwp: grpcWebProtocol{write: normalWrite}, rw: rw}
	// an error chain ending in nil is outside this harness (covered by VerifH_GetCode)
	if err != nil {
		var e error = err
		for i := 0; i < 3; i++ {
			switch v := e.(type) {
			case *wrapErr:
				e = v.inner
			case *causeErr:
				e = v.inner
			}
		}
		vrt.Assume(e != nil)
	}
	gws.Finish(err)
	out := rw.out
	vrt.Assert(len(out) >= 5 && out[0] == 0x80, "trailer frame carries the trailer flag")
	if len(out) < 5 {
		return
	}
	n := int(out[1])<<24 | int(out[2])<<16 | int(out[3])<<8 | int(out[4])
	vrt.Assert(n == len(out)-5, "frame length covers exactly the trailer block")
	block := out[5:]
	// lines
	lines := 0
	for i := 0; i < len(block); i++ {
		if block[i] == '\n' {
			vrt.Assert(i > 0 && block[i-1] == '\r', "LF only as part of a CRLF terminator")
			lines++
		}
		if block[i] == '\r' {
			vrt.Assert(i+1 < len(block) && block[i+1] == '\n', "CR only as part of a CRLF terminator")
		}
	}
	want := 1
	if err != nil {
		want = 3
	}
	vrt.Assert(lines == want, "exactly the expected trailer lines (no injected line)")
	prefix := "grpc-status: "
	vrt.Assert(len(block) > len(prefix), "status line present")
	for i := 0; i < len(prefix) && i < len(block); i++ {
		vrt.Assert(block[i] == prefix[i], "first line is grpc-status")
	}
	if len(block) > len(prefix)+1 {
		isZero := block[len(prefix)] == '0' && block[len(prefix)+1] == '\r'
		vrt.Assert(isZero == (err == nil), "grpc-status is non-zero exactly when the RPC failed")
		if err != nil && drpcerr.Code(err) != 0 {
			vrt.Cover("finish-coded")
		}
	}
	vrt.Cover("finish-end")
}

// VerifH_FramedWrite: framedWrite emits hdr, big-endian length, payload; MsgSend rejects
// messages at or over the limit without writing.
func VerifH_FramedWrite() {
	rw := &recRW{}
	gwp := grpcWebProtocol{write: normalWrite, marshal: protoMarshal}
	buf := vrt.Bytes("buf", 3)
	hdr := vrt.U8("hdr")
	vrt.Assert(gwp.framedWrite(rw, hdr, buf) == nil, "framedWrite succeeds")
	vrt.Assert(len(rw.out) == 5+len(buf) && rw.out[0] == hdr, "header byte then length then payload")
	if len(rw.out) == 5+len(buf) {
		vrt.Assert(rw.out[1] == 0 && rw.out[2] == 0 && rw.out[3] == 0 && int(rw.out[4]) == len(buf), "big-endian length")
		for i := range buf {
			vrt.Assert(rw.out[5+i] == buf[i], "payload unmodified")
		}
	}
	// size limit on the response side
	rw2 := &recRW{}
	gws := &grpcWebStream{gwp: gwp, rw: rw2}
	big := vrt.Bool("big")
	n := 2
	if big {
		n = maxSize
	}
	msg := make([]byte, n)
	err := gws.MsgSend(&msg, hx.ByteEnc{})
	if big {
		vrt.Assert(err != nil && len(rw2.out) == 0, "a response at the size limit is rejected, nothing is written")
	} else {
		vrt.Assert(err == nil && len(rw2.out) == 7 && rw2.out[0] == 0, "a small response is framed with flag 0")
	}
	vrt.Cover("framedwrite-end")
}

// VerifH_TwirpFinishOK: a successful unary response: status 200 and the response bytes unchanged.
func VerifH_TwirpFinishOK() {
	rw := &recRW{}
	ts := &twirpStream{tp: twirpProtocol{marshal: protoMarshal}, rw: rw}
	msg := vrt.Bytes("msg", 3)
	cp := append([]byte(nil), msg...)
	vrt.Assert(ts.MsgSend(&cp, hx.ByteEnc{}) == nil, "MsgSend succeeds")
	vrt.Assert(ts.MsgSend(&cp, hx.ByteEnc{}) != nil, "a second response on a unary stream is refused")
	ts.Finish(nil)
	vrt.Assert(rw.status == 200, "success maps to 200")
	vrt.Assert(len(rw.out) == len(msg), "body is exactly the response")
	for i := range msg {
		if i < len(rw.out) {
			vrt.Assert(rw.out[i] == msg[i], "response bytes unchanged")
		}
	}
	vrt.Cover("twirpfinish-end")
}

// refJSONString decodes a JSON string literal at b[pos] (reference decoder written from
// RFC 8259: escapes \" \\ \/ \b \f \n \r \t \uXXXX); returns the decoded bytes (BMP code
// points below 0x80 only, U+FFFD reported as the byte 0xFD marker) and the position after it.
func refJSONString(b []byte, pos int) (out []byte, npos int, ok bool) {
	if pos >= len(b) || b[pos] != '"' {
		return nil, pos, false
	}
	i := pos + 1
	for i < len(b) {
		c := b[i]
		switch {
		case c == '"':
			return out, i + 1, true
		case c < 0x20:
			return nil, pos, false // raw control characters are not valid JSON
		case c == '\\':
			if i+1 >= len(b) {
				return nil, pos, false
			}
			e := b[i+1]
			switch e {
			case '"', '\\', '/':
				out = append(out, e)
				i += 2
			case 'n':
				out = append(out, '\n')
				i += 2
			case 'r':
				out = append(out, '\r')
				i += 2
			case 't':
				out = append(out, '\t')
				i += 2
			case 'b':
				out = append(out, 8)
				i += 2
			case 'f':
				out = append(out, 12)
				i += 2
			case 'u':
				if i+5 >= len(b) {
					return nil, pos, false
				}
				v := 0
				for k := 2; k <= 5; k++ {
					d, okh := refHex(b[i+k])
					if !okh {
						return nil, pos, false
					}
					v = v<<4 | int(d)
				}
				if v == 0xfffd {
					out = append(out, 0xFD)
				} else if v < 0x80 {
					out = append(out, byte(v))
				} else {
					return nil, pos, false
				}
				i += 6
			default:
				return nil, pos, false // not a JSON escape
			}
		default:
			out = append(out, c)
			i++
		}
	}
	return nil, pos, false
}

// VerifH_TwirpFinishError: a failed Twirp RPC: HTTP status from the status table (500 for
// unknown codes), Content-Type exactly application/json whatever the request protocol was,
// and a body that is valid JSON carrying exactly the error's code and message.
func VerifH_TwirpFinishError() {
	err := symErr(vrt.Param("depth", 1))
	vrt.Assume(err != nil)
	var e error = err
	for i := 0; i < 3; i++ {
		switch v := e.(type) {
		case *wrapErr:
			e = v.inner
		case *causeErr:
			e = v.inner
		}
	}
	vrt.Assume(e != nil)
	ct := []string{"application/proto", "application/json"}[vrt.Choice("reqct", 2)]
	rw := &recRW{hdr: http.Header{"Content-Type": []string{ct}}}
	ts := &twirpStream{tp: twirpProtocol{ct: ct, marshal: protoMarshal}, rw: rw}
	ts.Finish(err)
	code := getCode(err)
	want := twirpStatus[code]
	if want == 0 {
		want = 500
	}
	vrt.Assert(rw.status == want, "HTTP status follows the Twirp status table (500 for unknown codes)")
	vrt.Assert(rw.status >= 400, "a failed RPC never yields a success status")
	cts := rw.hdr["Content-Type"]
	vrt.Assert(len(cts) == 1 && cts[0] == "application/json", "the error response has exactly one Content-Type: application/json")
	// body: {"code": <code>, "msg": <message>} as valid JSON
	b := rw.out
	pos := 0
	skip := func() {
		for pos < len(b) && (b[pos] == ' ' || b[pos] == '\n' || b[pos] == '\t' || b[pos] == '\r') {
			pos++
		}
	}
	okAll := true
	expect := func(c byte) {
		skip()
		if pos < len(b) && b[pos] == c {
			pos++
		} else {
			okAll = false
		}
	}
	expect('{')
	skip()
	k1, p1, ok1 := refJSONString(b, pos)
	pos = p1
	expect(':')
	skip()
	v1, p2, ok2 := refJSONString(b, pos)
	pos = p2
	expect(',')
	skip()
	k2, p3, ok3 := refJSONString(b, pos)
	pos = p3
	expect(':')
	skip()
	v2, p4, ok4 := refJSONString(b, pos)
	pos = p4
	expect('}')
	skip()
	vrt.Assert(okAll && ok1 && ok2 && ok3 && ok4 && pos == len(b), "the error body is one valid JSON object with two string members")
	if okAll && ok1 && ok2 && ok3 && ok4 {
		vrt.Assert(string(k1) == "code" && string(k2) == "msg", "members are code and msg")
		vrt.Assert(string(v1) == code, "code member carries the error code")
		msg := err.Error()
		same := len(v2) == len(msg)
		for i := 0; same && i < len(msg); i++ {
			m := msg[i]
			if m >= 0x80 {
				m = 0xFD // invalid UTF-8 is replaced by U+FFFD
			}
			same = v2[i] == m
		}
		vrt.Assert(same, "msg member carries exactly the error message")
	}
	vrt.Cover("twirp-error-end")
}

const refB64Alphabet = "ABCDEFGHIJKLMNOPQRSTUVWXYZabcdefghijklmnopqrstuvwxyz0123456789+/"

// refB64 is the reference: standard base64 with padding of the whole input as one unit.
func refB64(in []byte) []byte {
	out := make([]byte, 0, (len(in)+2)/3*4)
	i := 0
	for ; i+3 <= len(in); i += 3 {
		v := uint(in[i])<<16 | uint(in[i+1])<<8 | uint(in[i+2])
		out = append(out, refB64Alphabet[v>>18&63], refB64Alphabet[v>>12&63], refB64Alphabet[v>>6&63], refB64Alphabet[v&63])
	}
	switch len(in) - i {
	case 1:
		v := uint(in[i]) << 16
		out = append(out, refB64Alphabet[v>>18&63], refB64Alphabet[v>>12&63], '=', '=')
	case 2:
		v := uint(in[i])<<16 | uint(in[i+1])<<8
		out = append(out, refB64Alphabet[v>>18&63], refB64Alphabet[v>>12&63], refB64Alphabet[v>>6&63], '=')
	}
	return out
}

// VerifH_GrpcWebText: text mode. Each frame (message frame, then the trailer frame) is
// emitted as base64 of exactly that frame - 5-byte header plus payload as one unit,
// padding only at the frame's end - for payload sizes from boundary classes (empty, not a
// multiple of three, around the encoder's internal 4 KiB and 1 KiB block sizes).
func VerifH_GrpcWebText() {
	rw := &recRW{}
	gws := &grpcWebStream{gwp: grpcWebProtocol{write: base64Write(normalWrite), marshal: protoMarshal}, rw: rw}
	sizes := []int{0, 1, 2, 3, 4, 1019, 1020, 4090, 4091, 4092, 4093, 8190}
	n := sizes[vrt.Choice("size", len(sizes))]
	msg := make([]byte, n)
	for i := range msg {
		msg[i] = byte(i*7 + 3)
	}
	if n > 0 {
		msg[0] = vrt.U8("first")
		msg[n-1] = vrt.U8("last")
	}
	vrt.Assert(gws.MsgSend(&msg, hx.ByteEnc{}) == nil, "text-mode send succeeds")
	frame := append([]byte{0, byte(n >> 24), byte(n >> 16), byte(n >> 8), byte(n)}, msg...)
	want := refB64(frame)
	vrt.Assert(len(rw.out) == len(want), "a message frame is emitted as one base64 unit of header and payload")
	if len(rw.out) == len(want) {
		for i := range want {
			vrt.Assert(rw.out[i] == want[i], "text-mode output is the base64 encoding of the frame")
		}
	}
	// the trailer frame follows as its own base64 unit
	mark := len(rw.out)
	gws.Finish(nil)
	tr := []byte("grpc-status: 0\r\n")
	tframe := append([]byte{0x80, 0, 0, 0, byte(len(tr))}, tr...)
	twant := refB64(tframe)
	vrt.Assert(len(rw.out)-mark == len(twant), "the trailer frame is emitted as its own base64 unit")
	if len(rw.out)-mark == len(twant) {
		for i := range twant {
			vrt.Assert(rw.out[mark+i] == twant[i], "text-mode trailers are the base64 encoding of the trailer frame")
		}
	}
	vrt.Cover("grpcweb-text-end")
}
