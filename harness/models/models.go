// Package models holds Go-coded models of library functions that the engine
// substitutes for the real (non-interpretable) implementation.
package models

import (
	"context"
	"sync"
	"time"
)

type strErr struct{ s string }

func (e *strErr) Error() string { return e.s }

// Errorf models fmt.Errorf for the verbs used by drpc: a format that is
// exactly "%s" or "%v" with a string / []byte / error argument yields that
// text; any other format yields the format string itself (opaque message).
func Errorf(format string, args ...interface{}) error {
	return &strErr{s: sprintfSimple(format, args...)}
}

// sprintfSimple is the error-message model: exact for "%s"/"%v" with one operand and for
// formats without operands; every other format is opaque (error texts built with other
// verbs are never compared by the harnesses, and formatting symbolic strings with %q
// would fork per byte).
func sprintfSimple(format string, args ...interface{}) string {
	if (format == "%s" || format == "%v") && len(args) == 1 {
		if s, ok := argText(args[0]); ok {
			return s
		}
	}
	if len(args) == 0 {
		for i := 0; i < len(format); i++ {
			if format[i] == '%' {
				return format + "%!(MISSING)"
			}
		}
	}
	return format
}

func Sprintf(format string, args ...interface{}) string {
	if (format == "%s" || format == "%v") && len(args) == 1 {
		if s, ok := argText(args[0]); ok {
			return s
		}
	}
	if len(args) == 0 {
		// fmt with no operands: "%%" prints "%", any other directive prints
		// "%!v(MISSING)"-style noise. A format without '%' is returned as is.
		for i := 0; i < len(format); i++ {
			if format[i] == '%' {
				return format + "%!(MISSING)"
			}
		}
		return format
	}
	// general case: %s %v %q (strings, []byte, errors) and %% are formatted; any other verb
	// makes the whole result opaque (the format string itself)
	out := make([]byte, 0, len(format))
	ai := 0
	for i := 0; i < len(format); i++ {
		c := format[i]
		if c != '%' {
			out = append(out, c)
			continue
		}
		if i+1 >= len(format) {
			return format
		}
		v := format[i+1]
		i++
		if v == '%' {
			out = append(out, '%')
			continue
		}
		if ai >= len(args) {
			return format
		}
		s, ok := argText(args[ai])
		ai++
		if !ok {
			return format
		}
		switch v {
		case 's', 'v':
			out = append(out, s...)
		case 'q':
			out = quote(out, s)
		default:
			return format
		}
	}
	return string(out)
}

func argText(a interface{}) (string, bool) {
	switch v := a.(type) {
	case string:
		return v, true
	case []byte:
		return string(v), true
	case error:
		return v.Error(), true
	}
	return "", false
}

// quote models strconv.Quote for the byte classes the harnesses use: printable ASCII,
// the named escapes, other control bytes as \xNN and bytes >= 0x80 (the harnesses only
// use isolated such bytes, i.e. invalid UTF-8) as \xNN.
func quote(dst []byte, s string) []byte {
	const hex = "0123456789abcdef"
	dst = append(dst, '"')
	for i := 0; i < len(s); i++ {
		c := s[i]
		switch {
		case c == '"' || c == '\\':
			dst = append(dst, '\\', c)
		case c == '\a':
			dst = append(dst, '\\', 'a')
		case c == '\b':
			dst = append(dst, '\\', 'b')
		case c == '\f':
			dst = append(dst, '\\', 'f')
		case c == '\n':
			dst = append(dst, '\\', 'n')
		case c == '\r':
			dst = append(dst, '\\', 'r')
		case c == '\t':
			dst = append(dst, '\\', 't')
		case c == '\v':
			dst = append(dst, '\\', 'v')
		case c < 0x20 || c >= 0x7f:
			dst = append(dst, '\\', 'x', hex[c>>4], hex[c&0xf])
		default:
			dst = append(dst, c)
		}
	}
	return append(dst, '"')
}

// ErrsError models (*errs.errorT).Error(), i.e. fmt.Sprintf("%v", e) through
// errorT.Format without the '+' flag: "<class>: <cause text>" (class and
// separator omitted when the class is empty, text omitted when empty).
func ErrsError(e interface {
	Name() (string, bool)
	Cause() error
}) string {
	out := ""
	sep := ""
	if name, ok := e.Name(); ok && name != "" {
		out = name
		sep = ": "
	}
	if text := e.Cause().Error(); len(text) > 0 {
		out += sep + text
	}
	return out
}

// ---- context ----

type valueCtx struct {
	context.Context
	key, val interface{}
}

func (c *valueCtx) Value(key interface{}) interface{} {
	if c.key == key {
		return c.val
	}
	return c.Context.Value(key)
}

// WithValue models context.WithValue (without the reflect-based comparability check).
func WithValue(parent context.Context, key, val interface{}) context.Context {
	return &valueCtx{parent, key, val}
}

// ErrorsIs models errors.Is for comparable targets: identity along the Unwrap chain.
func ErrorsIs(err, target error) bool {
	for i := 0; i < 100 && err != nil; i++ {
		if err == target {
			return true
		}
		if x, ok := err.(interface{ Is(error) bool }); ok && x.Is(target) {
			return true
		}
		u, ok := err.(interface{ Unwrap() error })
		if !ok {
			return false
		}
		err = u.Unwrap()
	}
	return false
}

// NotConnReset models drpcmanager.isConnectionReset for harness errors (never *net.OpError).
func NotConnReset(err error) bool { return false }

// cancelCtx models context.WithCancel: a child that is cancelled by its cancel func or
// when the parent is done (propagation by a watcher goroutine, as the stdlib does for
// foreign parent types).
type cancelCtx struct {
	context.Context
	mu   sync.Mutex
	done chan struct{}
	err  error
}

func (c *cancelCtx) Done() <-chan struct{} { return c.done }

func (c *cancelCtx) Err() error {
	c.mu.Lock()
	defer c.mu.Unlock()
	return c.err
}

func (c *cancelCtx) cancel(err error) {
	c.mu.Lock()
	defer c.mu.Unlock()
	if c.err != nil {
		return
	}
	c.err = err
	close(c.done)
}

func WithCancel(parent context.Context) (context.Context, context.CancelFunc) {
	c := &cancelCtx{Context: parent, done: make(chan struct{})}
	if pd := parent.Done(); pd != nil {
		go func() {
			select {
			case <-pd:
				c.cancel(parent.Err())
			case <-c.done:
			}
		}()
	}
	return c, func() { c.cancel(context.Canceled) }
}

// NotTemporary models drpcserver.isTemporary for harness errors (none implements Temporary()).
func NotTemporary(err error) bool { return false }

// ---- timers ----

type timerState struct{ fired, stopped bool }

var timers = map[*time.Timer]*timerState{}

// AfterFunc models time.AfterFunc: the callback runs on its own goroutine at an arbitrary
// later moment (the duration is not interpreted) unless stopped before it started.
func AfterFunc(d time.Duration, f func()) *time.Timer {
	t := new(time.Timer)
	st := &timerState{}
	timers[t] = st
	go func() {
		if st.stopped {
			return
		}
		st.fired = true
		f()
	}()
	return t
}

// TimerStop models (*time.Timer).Stop: false iff the callback has already started (or the
// timer was already stopped).
func TimerStop(t *time.Timer) bool {
	st := timers[t]
	if st == nil || st.fired || st.stopped {
		return false
	}
	st.stopped = true
	return true
}

// ---- encoding/json (only what the gateway's error body needs) ----

func jsonEscapeString(dst []byte, s string) []byte {
	const hex = "0123456789abcdef"
	dst = append(dst, '"')
	for i := 0; i < len(s); i++ {
		c := s[i]
		switch {
		case c == '"' || c == '\\':
			dst = append(dst, '\\', c)
		case c == '\n':
			dst = append(dst, '\\', 'n')
		case c == '\r':
			dst = append(dst, '\\', 'r')
		case c == '\t':
			dst = append(dst, '\\', 't')
		case c < 0x20 || c == '<' || c == '>' || c == '&':
			dst = append(dst, '\\', 'u', '0', '0', hex[c>>4], hex[c&0xf])
		case c < 0x80:
			dst = append(dst, c)
		default:
			// the harnesses only use single non-ASCII bytes (invalid UTF-8): encoding/json
			// replaces each invalid byte by U+FFFD
			dst = append(dst, '\\', 'u', 'f', 'f', 'f', 'd')
		}
	}
	return append(dst, '"')
}

// JSONMarshalIndent models json.MarshalIndent for map[string]interface{} values whose
// elements are strings (keys sorted, as encoding/json does), with the given prefix/indent.
func JSONMarshalIndent(v interface{}, prefix, indent string) ([]byte, error) {
	m, ok := v.(map[string]interface{})
	if !ok {
		return nil, &strErr{"json model: unsupported value"}
	}
	keys := make([]string, 0, len(m))
	for k := range m {
		keys = append(keys, k)
	}
	for i := 1; i < len(keys); i++ {
		for j := i; j > 0 && keys[j] < keys[j-1]; j-- {
			keys[j], keys[j-1] = keys[j-1], keys[j]
		}
	}
	out := []byte{'{'}
	for i, k := range keys {
		if i > 0 {
			out = append(out, ',')
		}
		out = append(out, '\n')
		out = append(out, prefix...)
		out = append(out, indent...)
		out = jsonEscapeString(out, k)
		out = append(out, ':', ' ')
		s, ok := m[k].(string)
		if !ok {
			return nil, &strErr{"json model: unsupported element"}
		}
		out = jsonEscapeString(out, s)
	}
	if len(keys) > 0 {
		out = append(out, '\n')
		out = append(out, prefix...)
	}
	out = append(out, '}')
	return out, nil
}

// ---- net/http.Header (keys used by the gateway are already canonical) ----

func HeaderSet(h map[string][]string, key, value string) { h[key] = []string{value} }
func HeaderAdd(h map[string][]string, key, value string) { h[key] = append(h[key], value) }
func HeaderGet(h map[string][]string, key string) string {
	if v := h[key]; len(v) > 0 {
		return v[0]
	}
	return ""
}
