package verifrt

import "time"

func timeAfter(seconds int) <-chan time.Time { return time.After(time.Duration(seconds) * time.Second) }
