package drpcstream

import (
	"context"
	"io"

	"storj.io/drpc/drpcwire"
	oldwire "storj.io/drpc/internal/verif017/drpcwire"
	vrt "storj.io/drpc/internal/verifrt"
)

type logReader struct {
	data []byte
	pos  int
}

func (r *logReader) Read(p []byte) (int, error) {
	if r.pos >= len(r.data) {
		return 0, io.EOF
	}
	n := copy(p, r.data[r.pos:])
	r.pos += n
	return n, nil
}

// VerifH_EmitsOldCompatible: whatever packet sequence the current stream layer emits for a
// history of emitting operations (MsgSend, CloseSend, Close, SendError, SendCancel, with
// symbolic split size), the released v0.0.17 reader decodes it without error to packets of
// kinds its stream layer knows (message, error, close, close-send): everything newer
// carries the control bit and is skipped by that reader.
func VerifH_EmitsOldCompatible() {
	depth := vrt.Param("depth", 2)
	sid := uint64(1)
	tr := &recTransport{}
	split := vrt.Int("split")
	vrt.Assume(split >= -1 && split <= 2)
	s := NewWithOptions(context.Background(), sid, drpcwire.NewWriter(tr, 64), Options{SplitSize: split})
	for i := 0; i < depth; i++ {
		op := vrt.Int("op")
		vrt.Assume(op >= 0 && op <= 4)
		switch op {
		case 0:
			m := vrt.Bytes("msg", 3)
			_ = s.MsgSend(&m, byteEnc{})
		case 1:
			_ = s.CloseSend()
		case 2:
			_ = s.Close()
		case 3:
			_ = s.SendError(&appErr{msg: "e", code: vrt.U64("code")})
		case 4:
			_, _ = s.SendCancel(context.Canceled)
		}
	}
	or := oldwire.NewReader(&logReader{data: tr.log})
	n := 0
	for i := 0; i < 2*depth+2; i++ {
		p, err := or.ReadPacket()
		if err != nil {
			vrt.Assert(err == io.EOF, "the v0.0.17 reader decodes the emitted bytes without error")
			break
		}
		k := uint8(p.Kind)
		vrt.Assert(k == 2 || k == 3 || k == 5 || k == 6, "every packet surfaced to a v0.0.17 stream has a kind it understands")
		vrt.Assert(p.ID.Stream == sid, "packet carries the stream id")
		n++
	}
	vrt.Cover("oldcompat-end")
	if n > 0 {
		vrt.Cover("oldcompat-packets")
	}
}
