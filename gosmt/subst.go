package main

import (
	"go/token"

	"golang.org/x/tools/go/ssa"
)

// substTable maps library functions to Go-coded models in package verifrt/models.
var substTable = map[string]string{
	"fmt.Errorf":                                  "Errorf",
	"fmt.Sprintf":                                 "Sprintf",
	"context.WithValue":                           "WithValue",
	"context.WithCancel":                          "WithCancel",
	"time.AfterFunc":                              "AfterFunc",
	"encoding/json.MarshalIndent":                 "JSONMarshalIndent",
	"(net/http.Header).Set":                       "HeaderSet",
	"(net/http.Header).Add":                       "HeaderAdd",
	"(net/http.Header).Get":                       "HeaderGet",
	"(*time.Timer).Stop":                          "TimerStop",
	"errors.Is":                                   "ErrorsIs",
	"storj.io/drpc/drpcmanager.isConnectionReset": "NotConnReset",
	"storj.io/drpc/drpcserver.isTemporary":        "NotTemporary",
}

// recvIfaceSubst maps methods to models that take the receiver wrapped in an interface.
var recvIfaceSubst = map[string]string{
	"(*github.com/zeebo/errs.errorT).Error": "ErrsError",
}

func (e *Engine) installSubst(l *Loaded) {
	e.recvSubst = map[string]*ssa.Function{}
	if l.models != nil {
		for from, to := range recvIfaceSubst {
			if fn := l.models.Func(to); fn != nil {
				e.recvSubst[from] = fn
			}
		}
	}
	if l.models == nil {
		return
	}
	for from, to := range substTable {
		if fn := l.models.Func(to); fn != nil {
			e.subst[from] = fn
		}
	}
}

func init() {
	intrinsics[vrtPkg+".Param"] = func(e *Engine, st *State, th *Thread, args []Value, pos token.Pos) Value {
		name := e.mustConstString(st, args[0])
		def := args[1].(*Term)
		if v, ok := e.params[name]; ok {
			return e.i64(uint64(int64(v)))
		}
		return def
	}
}

var _ = ssa.BuilderMode(0)
