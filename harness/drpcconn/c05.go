package drpcconn

import (
	"context"

	"storj.io/drpc/drpcmanager"
	"storj.io/drpc/drpcwire"
	vrt "storj.io/drpc/internal/verifrt"
	"storj.io/drpc/internal/verifrt/hx"
)

// VerifH_TransportFault: client runs two unary RPCs back to back against a scripted server;
// the transport fails at the k-th Read or the k-th Write (symbolic), or the peer closes
// after the responses, with the response bytes delivered in chunks of symbolic size.
// Nothing hangs, nothing is delivered corrupted or to the wrong RPC, the connection
// reports itself closed after a fault and closes the transport exactly once.
func VerifH_TransportFault() {
	tr := &hx.Transport{}
	kind := vrt.Int("fault") // 0 none(peer EOF at the end), 1 read fault, 2 write fault
	vrt.Assume(kind >= 0 && kind <= 2)
	k := vrt.Int("k")
	vrt.Assume(k >= 1 && k <= vrt.Param("maxk", 4))
	chunk := vrt.Int("chunk")
	vrt.Assume(chunk == 1 || chunk == 5 || chunk == 64)
	tr.Chunk = chunk
	switch kind {
	case 0:
		tr.EOF = true
	case 1:
		tr.FaultRead = k
	case 2:
		tr.FaultWrite = k
	}
	conn := New(tr)
	enc := hx.ByteEnc{}
	// server script: answers RPC 1 (stream 1) and RPC 2 (stream 2)
	tr.Feed(hx.Pkt(drpcwire.KindMessage, 1, 1, false, []byte{0x41}))
	tr.Feed(hx.Pkt(drpcwire.KindCloseSend, 1, 2, false, nil))
	tr.Feed(hx.Pkt(drpcwire.KindMessage, 2, 1, false, []byte{0x42}))
	tr.Feed(hx.Pkt(drpcwire.KindCloseSend, 2, 2, false, nil))

	var err1, err2 error
	var out1, out2 []byte
	d1, d2 := false, false
	go func() {
		in := []byte{1}
		err1 = conn.Invoke(hx.NewCtx(), "a", enc, &in, &out1)
		d1 = true
		in2 := []byte{2}
		err2 = conn.Invoke(hx.NewCtx(), "b", enc, &in2, &out2)
		d2 = true
	}()
	vrt.Quiesce()
	vrt.Assert(d1 && d2, "no call hangs on a failed transport")
	if err1 == nil {
		vrt.Assert(len(out1) == 1 && out1[0] == 0x41, "RPC 1 returns its own, uncorrupted response")
		vrt.Cover("fault-rpc1-ok")
	}
	if err2 == nil {
		vrt.Assert(len(out2) == 1 && out2[0] == 0x42, "RPC 2 returns its own, uncorrupted response")
		vrt.Cover("fault-rpc2-ok")
	}
	if kind == 0 {
		// RPC 1 is over before the reader can get past RPC 2's response (it waits for
		// stream 2 to exist), so the peer's EOF cannot touch it. RPC 2 may lose the race
		// between returning its response and the EOF closing the transport (its final
		// Close packet can then fail): it may report an error, but never a wrong response.
		vrt.Assert(err1 == nil, "the RPC completed before the peer went away succeeds")
		if err2 == nil {
			vrt.Cover("fault-eof-both-ok")
		}
	}
	if tr.Dead {
		vrt.Cover("fault-hit")
	}
	// give the manager the chance to notice a read-side failure
	vrt.Quiesce()
	if tr.Dead || (kind == 0) {
		vrt.Assert(hx.IsClosedCh(conn.Closed()), "the connection reports itself closed after the transport failed / the peer went away")
		vrt.Assert(tr.Closes == 1, "the transport is closed exactly once")
		in3 := []byte{3}
		var out3 []byte
		vrt.Assert(conn.Invoke(hx.NewCtx(), "c", enc, &in3, &out3) != nil, "later calls fail")
		vrt.Assert(vrt.Unfinished() == 0, "no goroutine is left behind")
	}
	// what reached the transport is a well-formed frame stream (prefix up to the fault)
	_, ok := hx.ParseOut(tr.Out)
	vrt.Assert(ok, "bytes written before the fault are whole well-formed frames")
	conn.Close()
}

// VerifH_FaultWhileWriteParked: an Invoke's request write is parked inside the transport
// (tiny writer buffer: the write happens inside RawWrite) when the transport fails on the
// read side (or the peer goes away); the manager tears down, the parked write then
// fails. The call must return an error, Close must complete and nothing may be left.
func VerifH_FaultWhileWriteParked() {
	tr := &hx.Transport{}
	gate := false
	tr.Gate = &gate
	tiny := vrt.Bool("tinyWriterBuffer")
	wsize := 0
	if tiny {
		wsize = 1
	}
	conn := NewWithOptions(tr, Options{Manager: drpcmanager.Options{WriterBufferSize: wsize, SoftCancel: vrt.Bool("soft")}})
	enc := hx.ByteEnc{}
	var err1 error
	d1 := false
	go func() {
		in := []byte{1, 2, 3}
		var out []byte
		err1 = conn.Invoke(hx.NewCtx(), "a", enc, &in, &out)
		d1 = true
	}()
	vrt.WaitFor(&tr.WParked)
	vrt.Quiesce()
	vrt.Assert(!d1, "the call is parked in the transport write")
	if vrt.Bool("peerEOF") {
		tr.EOF = true
	} else {
		tr.FaultRead = 1
	}
	tr.CanRead = true // the reader's pending Read now fails
	vrt.Quiesce()
	vrt.Assert(d1 && err1 != nil, "the parked call returns an error once the transport has failed")
	vrt.Assert(hx.IsClosedCh(conn.Closed()), "the connection reports itself closed")
	cdone := false
	go func() { conn.Close(); cdone = true }()
	vrt.Quiesce()
	vrt.Assert(cdone, "Close completes after the failure")
	vrt.Assert(tr.Closes == 1, "the transport is closed exactly once")
	vrt.Assert(vrt.Unfinished() == 0, "no goroutine is left behind")
	vrt.Cover("fault-parked-end")
}

// VerifH_SendOnFailedTransport: a client stream sends three messages (one larger than a
// tiny writer buffer, so that the write happens inside the frame writer's own flush); the
// k-th transport write fails. A send during or after the failure must report an error -
// it may not claim success for bytes that never reached the transport - and every send
// that reported success is completely on the wire.
func VerifH_SendOnFailedTransport() {
	tr := &hx.Transport{}
	k := vrt.Int("k")
	vrt.Assume(k >= 1 && k <= vrt.Param("maxk", 5))
	tr.FaultWrite = k
	wsize := 0
	switch vrt.Choice("wsize", 3) {
	case 1:
		wsize = 1
	case 2:
		wsize = 8
	}
	conn := NewWithOptions(tr, Options{Manager: drpcmanager.Options{WriterBufferSize: wsize}})
	enc := hx.ByteEnc{}
	st, err := conn.NewStream(hx.NewCtx(), "rpc", enc)
	if tr.Dead {
		vrt.Assert(err != nil, "a NewStream whose invoke could not be written fails")
	}
	if err != nil {
		vrt.Assert(tr.Dead, "NewStream only fails because of the fault")
		vrt.Cover("send-fault-newstream")
		conn.Close()
		return
	}
	msgs := [][]byte{{1}, {2, 3, 4, 5, 6, 7, 8, 9, 10, 11, 12, 13}, {14}}
	okSent := 0
	for i := range msgs {
		m := msgs[i]
		err := st.MsgSend(&m, enc)
		if tr.Dead {
			vrt.Assert(err != nil, "a send during or after the transport failure returns an error")
		}
		if err != nil {
			break
		}
		okSent++
	}
	pkts, ok := hx.ParseOut(tr.Out)
	vrt.Assert(ok, "bytes written before the fault are whole well-formed frames")
	got := 0
	for _, p := range pkts {
		if p.Kind == drpcwire.KindMessage {
			vrt.Assert(got < len(msgs) && len(p.Data) == len(msgs[got]), "messages on the wire are the ones sent, in order")
			got++
		}
	}
	vrt.Assert(got >= okSent, "every send that reported success is completely on the transport")
	vrt.Cover("send-fault-end")
	conn.Close()
}

// VerifH_CloseRacesInvoke: Conn.Close is issued concurrently with a unary call whose response
// is already on the wire (and, symbolically, with the cancellation of that call's context).
// Everything returns, the transport is closed exactly once, a call that succeeds has its own
// response, nothing is left behind, later calls fail.
func VerifH_CloseRacesInvoke() {
	tr := &hx.Transport{}
	conn := NewWithOptions(tr, Options{Manager: drpcmanager.Options{SoftCancel: vrt.Bool("soft")}})
	enc := hx.ByteEnc{}
	tr.Feed(hx.Pkt(drpcwire.KindMessage, 1, 1, false, []byte{0x41}))
	tr.Feed(hx.Pkt(drpcwire.KindCloseSend, 1, 2, false, nil))
	ctx := hx.NewCtx()
	var err error
	var out []byte
	idone, cdone := false, false
	go func() { in := []byte{1}; err = conn.Invoke(ctx, "a", enc, &in, &out); idone = true }()
	go func() { _ = conn.Close(); cdone = true }()
	if vrt.Bool("alsoCancel") {
		go func() { ctx.Cancel(context.Canceled) }()
	}
	vrt.Quiesce()
	vrt.Assert(idone && cdone, "the call and Close both return")
	if err == nil {
		vrt.Assert(len(out) == 1 && out[0] == 0x41, "a call that succeeds has its own response")
		vrt.Cover("close-races-invoke-ok")
	}
	vrt.Assert(tr.Closes == 1, "the transport is closed exactly once")
	vrt.Assert(hx.IsClosedCh(conn.Closed()), "the connection reports itself closed")
	in2 := []byte{2}
	var out2 []byte
	vrt.Assert(conn.Invoke(hx.NewCtx(), "b", enc, &in2, &out2) != nil, "later calls fail")
	vrt.Assert(vrt.Unfinished() == 0, "no goroutine is left behind")
	vrt.Cover("close-races-invoke-end")
}
