// Package models holds Go-coded models of library functions that the engine
// substitutes for the real (non-interpretable) implementation.
package models

type strErr struct{ s string }

func (e *strErr) Error() string { return e.s }

// Errorf models fmt.Errorf for the verbs used by drpc: a format that is
// exactly "%s" or "%v" with a string / []byte / error argument yields that
// text; any other format yields the format string itself (opaque message).
func Errorf(format string, args ...interface{}) error {
	return &strErr{s: Sprintf(format, args...)}
}

func Sprintf(format string, args ...interface{}) string {
	if (format == "%s" || format == "%v") && len(args) == 1 {
		switch v := args[0].(type) {
		case string:
			return v
		case []byte:
			return string(v)
		case error:
			return v.Error()
		}
	}
	return format
}
