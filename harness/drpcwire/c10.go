package drpcwire

import (
	"errors"

	"storj.io/drpc/drpcerr"
	vrt "storj.io/drpc/internal/verifrt"
)

type msgErr struct{ msg string }

func (e *msgErr) Error() string { return e.msg }

// VerifH_ErrorCodec: UnmarshalError(MarshalError(e)) carries exactly message and code.
func VerifH_ErrorCodec() {
	code := vrt.U64("code")
	msg := vrt.Str("msg", vrt.Param("maxmsg", 4))
	var err error = &msgErr{msg}
	err = drpcerr.WithCode(err, code)
	data := MarshalError(err)
	vrt.Assert(len(data) == 8+len(msg), "marshaled error is 8 code bytes + message")
	var be uint64
	for i := 0; i < 8; i++ {
		be = be<<8 | uint64(data[i])
	}
	vrt.Assert(be == code, "code is big-endian in the first 8 bytes")
	got := UnmarshalError(data)
	vrt.Assert(got != nil, "UnmarshalError returns an error")
	vrt.Assert(got.Error() == msg, "message round-trips exactly")
	vrt.Assert(drpcerr.Code(got) == code, "code round-trips exactly")
	vrt.Cover("errcodec-end")
	if code == 0 {
		vrt.Cover("errcodec-code0")
	}
}

// VerifH_ErrorUnmarshalTotal: arbitrary data never panics; short data gives an uncoded error.
func VerifH_ErrorUnmarshalTotal() {
	data := vrt.Bytes("data", vrt.Param("maxlen", 12))
	got := UnmarshalError(data)
	vrt.Assert(got != nil, "UnmarshalError always returns an error")
	if len(data) < 8 {
		vrt.Assert(drpcerr.Code(got) == 0, "short data carries no code")
		vrt.Cover("unmarshal-short")
	} else {
		var be uint64
		for i := 0; i < 8; i++ {
			be = be<<8 | uint64(data[i])
		}
		vrt.Assert(drpcerr.Code(got) == be, "code equals the first 8 bytes")
		vrt.Assert(got.Error() == string(data[8:]), "message equals the rest")
		vrt.Cover("unmarshal-long")
	}
}

var _ = errors.New
