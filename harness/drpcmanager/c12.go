package drpcmanager

import (
	"context"

	"storj.io/drpc/drpcstream"
	"storj.io/drpc/drpcwire"
	vrt "storj.io/drpc/internal/verifrt"
	"storj.io/drpc/internal/verifrt/hx"
)

const (
	stIdle                 = iota // no stream
	stStreamIdle                  // client stream open, nothing in flight
	stRecvBlocked                 // MsgRecv blocked
	stSendParked                  // MsgSend parked in the transport
	stReaderInPut                 // reader parked handing a message to a stream nobody reads
	stReaderWaitsForStream        // reader parked in streamBuffer.Wait (packet for a future stream)
	stNewStreamWaiting            // second NewClientStream waiting for the first stream to finish
	numStates
)

// VerifH_CloseCompletes: Manager.Close issued while the manager is in one of several
// states (goroutines parked in different places, application calls in flight): Close
// returns, the transport is closed exactly once, pending and later calls fail, stream
// contexts are done and no library goroutine is left.
func VerifH_CloseCompletes() {
	state := vrt.Int("state")
	vrt.Assume(state >= 0 && state < numStates)
	soft := vrt.Bool("soft")
	tr := &hx.Transport{}
	gate := false
	m := NewWithOptions(tr, Options{SoftCancel: soft})
	enc := hx.ByteEnc{}
	ctx := hx.NewCtx()
	var stream, second *drpcstream.Stream
	var opErr error
	opDone := true
	in := []byte{1}
	var out []byte
	if state != stIdle {
		var err error
		stream, err = m.NewClientStream(ctx, "rpc")
		vrt.Assert(err == nil, "NewClientStream succeeds")
	}
	switch state {
	case stRecvBlocked:
		opDone = false
		go func() { opErr = stream.MsgRecv(&out, enc); opDone = true }()
	case stSendParked:
		tr.Gate = &gate
		opDone = false
		go func() { opErr = stream.MsgSend(&in, enc); opDone = true }()
	case stReaderInPut:
		tr.Feed(hx.Pkt(drpcwire.KindMessage, 1, 1, false, []byte{7}))
	case stReaderWaitsForStream:
		tr.Feed(hx.Pkt(drpcwire.KindMessage, 2, 1, false, []byte{7}))
	case stNewStreamWaiting:
		opDone = false
		go func() { second, opErr = m.NewClientStream(hx.NewCtx(), "second"); opDone = true }()
	}
	vrt.Quiesce()
	if state == stRecvBlocked || state == stSendParked || state == stNewStreamWaiting {
		vrt.Assert(!opDone, "the application call is blocked before Close")
	}
	vrt.Cover("before-close")

	var closeErr error
	closeDone, exitedAtReturn := false, false
	go func() {
		closeErr = m.Close()
		// white-box: the reader and the stream manager announce their exit through these signals
		exitedAtReturn = m.sigs.stream.IsSet() && m.sigs.read.IsSet() && m.sigs.tport.IsSet()
		closeDone = true
	}()
	vrt.Quiesce()
	vrt.Assert(closeDone, "Close returns")
	vrt.Assert(exitedAtReturn, "when Close returns the reader and the stream manager have exited and the transport's Close has returned")
	vrt.Assert(closeErr == nil, "Close returns the transport's close result")
	vrt.Assert(tr.Closes == 1, "the transport is closed exactly once")
	vrt.Assert(opDone, "the pending application call returns")
	if state == stRecvBlocked || state == stSendParked {
		vrt.Assert(opErr != nil, "the pending application call fails")
	}
	if state == stNewStreamWaiting {
		vrt.Tag("newstream-succeeds-during-close", opErr == nil)
		vrt.Assert(opErr != nil, "a pending NewClientStream fails")
		if opErr == nil {
			vrt.Assert(second != nil && hx.IsClosedCh(second.Context().Done()), "a stream handed out during Close is already cancelled")
		}
	}
	vrt.Assert(hx.IsClosedCh(m.Closed()), "the manager reports itself closed")
	if stream != nil {
		vrt.Assert(hx.IsClosedCh(stream.Context().Done()), "the active stream's context is cancelled")
		vrt.Assert(stream.MsgSend(&in, enc) != nil, "later sends fail")
	}
	_, err := m.NewClientStream(hx.NewCtx(), "later")
	vrt.Assert(err != nil, "later NewClientStream fails")
	vrt.Assert(m.Close() == nil && tr.Closes == 1, "a second Close is a no-op")
	vrt.Assert(vrt.Unfinished() == 0, "no library goroutine is left behind")
	vrt.Cover("close-end")
}

// VerifH_CloseRaces: Close racing a transport read error and a context cancel.
func VerifH_CloseRaces() {
	tr := &hx.Transport{}
	m := NewWithOptions(tr, Options{SoftCancel: vrt.Bool("soft")})
	ctx := hx.NewCtx()
	stream, err := m.NewClientStream(ctx, "rpc")
	vrt.Assert(err == nil, "NewClientStream succeeds")
	var c1, c2 bool
	go func() { m.Close(); c1 = true }()
	go func() { ctx.Cancel(context.Canceled); c2 = true }()
	tr.EOF = true
	tr.CanRead = true // the peer goes away at the same time: reader sees EOF
	vrt.Quiesce()
	vrt.Assert(c1 && c2, "Close returns while racing a read error and a cancel")
	vrt.Assert(tr.Closes == 1, "the transport is closed exactly once")
	vrt.Assert(hx.IsClosedCh(stream.Context().Done()), "the stream's context is cancelled")
	vrt.Assert(vrt.Unfinished() == 0, "no library goroutine is left behind")
	vrt.Cover("close-races-end")
}

// VerifH_ServerCloseAfterBadMetadata: server manager receives an undecodable metadata
// packet; NewServerStream fails; Close must still complete (reader released).
func VerifH_ServerCloseAfterBadMetadata() {
	tr := &hx.Transport{}
	m := NewWithOptions(tr, Options{})
	bad := vrt.Bool("bad")
	payload := []byte{0x0a, 0x04, 0x0a, 0x00, 0x12, 0x00} // one entry "" -> ""
	if bad {
		payload = []byte{0xff, 0xff, 0xff}
	}
	tr.Feed(hx.Pkt(drpcwire.KindInvokeMetadata, 1, 1, false, payload))
	tr.Feed(hx.Pkt(drpcwire.KindInvoke, 1, 2, false, []byte("rpc")))
	var stream *drpcstream.Stream
	var serr error
	sdone := false
	go func() { stream, _, serr = m.NewServerStream(hx.NewCtx()); sdone = true }()
	vrt.Quiesce()
	vrt.Assert(sdone, "NewServerStream returns")
	vrt.Assert((serr != nil) == bad, "NewServerStream fails exactly for undecodable metadata")
	_ = stream
	closeDone := false
	go func() { m.Close(); closeDone = true }()
	vrt.Quiesce()
	vrt.Assert(closeDone, "Close returns after a failed NewServerStream")
	vrt.Assert(tr.Closes == 1, "the transport is closed exactly once")
	vrt.Assert(vrt.Unfinished() == 0, "no library goroutine is left behind")
	vrt.Cover("server-close-end")
}

// VerifH_CloseAfterTermination: the manager has already begun terminating for another
// reason (the peer went away, an active stream was hard-cancelled, a write failed) and the
// goroutine doing so is still inside the transport's Close when the application calls
// Manager.Close. Close must not return before the transport has let go (its Close
// returned and no library goroutine is inside a transport call), reports the transport's
// close error, the transport is closed exactly once and nothing is left behind.
func VerifH_CloseAfterTermination() {
	tr := &hx.Transport{}
	release := false
	tr.CloseGate = &release
	if vrt.Bool("closeFails") {
		tr.CloseErr = &hx.Err{S: "close failed"}
	}
	m := NewWithOptions(tr, Options{SoftCancel: vrt.Bool("soft")})
	ctx := hx.NewCtx()
	stream, err := m.NewClientStream(ctx, "rpc")
	vrt.Assert(err == nil, "NewClientStream succeeds")
	cause := vrt.Choice("cause", 4)
	switch cause {
	case 3: // another goroutine is already inside Close
		go func() { _ = m.Close() }()
	case 0: // the peer goes away: the reader sees EOF and terminates the manager
		tr.EOF = true
		tr.CanRead = true
	case 1: // the stream's context is cancelled (hard cancel terminates the manager)
		ctx.Cancel(context.Canceled)
	case 2: // the reader sees a transport fault
		tr.FaultRead = 1
		tr.CanRead = true
	}
	vrt.Quiesce()
	terminating := tr.InClose
	vrt.Tag("manager-terminating-in-transport-close", terminating)
	var closeErr error
	closeDone := false
	inIOAtReturn := false
	closeRetAtReturn := false
	go func() {
		closeErr = m.Close()
		inIOAtReturn = tr.InRead || tr.InWrite || tr.InClose
		closeRetAtReturn = tr.CloseRet && m.sigs.stream.IsSet() && m.sigs.read.IsSet() && m.sigs.tport.IsSet()
		closeDone = true
	}()
	vrt.Quiesce()
	if terminating {
		vrt.Assert(!closeDone, "Close does not return while the transport's Close is still in progress")
		vrt.Cover("close-waits-for-transport")
	}
	release = true
	vrt.Quiesce()
	vrt.Assert(closeDone, "Close returns once the transport lets go")
	vrt.Assert(closeRetAtReturn && !inIOAtReturn, "Close returns only after the transport's Close returned, the reader and the stream manager have exited and no library goroutine is inside a transport call")
	vrt.Assert(closeErr == tr.CloseErr, "Close reports the transport's close error")
	vrt.Assert(tr.Closes == 1, "the transport is closed exactly once")
	vrt.Assert(hx.IsClosedCh(stream.Context().Done()), "the active stream's context is cancelled")
	_, err = m.NewClientStream(hx.NewCtx(), "later")
	vrt.Assert(err != nil, "later NewClientStream fails")
	vrt.Assert(vrt.Unfinished() == 0, "no library goroutine is left behind")
	vrt.Cover("close-after-term-end")
}

// VerifH_CloseRacesNewStream: a packet for the next stream is already on the wire (the reader
// is waiting for that stream to exist) when NewClientStream and Close are issued
// concurrently. Whatever the order, Close returns, the transport is closed once, the new
// stream - if one was handed out - is cancelled, and no goroutine is left (in particular the
// reader is not left delivering a message to a stream nobody manages).
func VerifH_CloseRacesNewStream() {
	tr := &hx.Transport{}
	m := NewWithOptions(tr, Options{SoftCancel: vrt.Bool("soft")})
	first := vrt.Bool("afterAFirstStream")
	next := uint64(1)
	if first {
		s1, err := m.NewClientStream(hx.NewCtx(), "one")
		vrt.Assert(err == nil, "first stream starts")
		vrt.Assert(s1.Close() == nil, "first stream closes")
		next = 2
	}
	tr.Feed(hx.Pkt(drpcwire.KindMessage, next, 1, false, []byte{7}))
	vrt.Quiesce()
	var st *drpcstream.Stream
	var serr error
	sdone, cdone := false, false
	go func() { st, serr = m.NewClientStream(hx.NewCtx(), "next"); sdone = true }()
	go func() { _ = m.Close(); cdone = true }()
	vrt.Quiesce()
	vrt.Assert(cdone, "Close returns while a NewClientStream races with it")
	vrt.Assert(sdone, "the racing NewClientStream returns")
	vrt.Assert(tr.Closes == 1, "the transport is closed exactly once")
	if serr == nil && st != nil {
		vrt.Assert(hx.IsClosedCh(st.Context().Done()), "a stream handed out while closing is cancelled")
	}
	vrt.Assert(vrt.Unfinished() == 0, "no library goroutine is left behind")
	vrt.Cover("close-races-newstream-end")
}

// VerifH_CloseRacesServerStream: server side. An invoke and a message for it are on the wire
// when NewServerStream and Close are issued concurrently: both return, the transport is
// closed once, a stream handed out is cancelled, nothing is left behind.
func VerifH_CloseRacesServerStream() {
	tr := &hx.Transport{}
	m := NewWithOptions(tr, Options{})
	if vrt.Bool("withMetadata") {
		tr.Feed(hx.Pkt(drpcwire.KindInvokeMetadata, 1, 1, false, []byte{0x0a, 0x04, 0x0a, 0x00, 0x12, 0x00}))
		tr.Feed(hx.Pkt(drpcwire.KindInvoke, 1, 2, false, []byte("rpc")))
		tr.Feed(hx.Pkt(drpcwire.KindMessage, 1, 3, false, []byte{7}))
	} else {
		tr.Feed(hx.Pkt(drpcwire.KindInvoke, 1, 1, false, []byte("rpc")))
		tr.Feed(hx.Pkt(drpcwire.KindMessage, 1, 2, false, []byte{7}))
	}
	var st *drpcstream.Stream
	var serr error
	sdone, cdone := false, false
	go func() { st, _, serr = m.NewServerStream(hx.NewCtx()); sdone = true }()
	go func() { _ = m.Close(); cdone = true }()
	vrt.Quiesce()
	vrt.Assert(cdone, "Close returns while a NewServerStream races with it")
	vrt.Assert(sdone, "the racing NewServerStream returns")
	vrt.Assert(tr.Closes == 1, "the transport is closed exactly once")
	if serr == nil && st != nil {
		vrt.Assert(hx.IsClosedCh(st.Context().Done()), "a stream handed out while closing is cancelled")
	}
	vrt.Assert(vrt.Unfinished() == 0, "no library goroutine is left behind")
	vrt.Cover("close-races-serverstream-end")
}
