package drpcmetadata

import (
	"storj.io/drpc/drpcwire"
	vrt "storj.io/drpc/internal/verifrt"
	"storj.io/drpc/internal/verifrt/hx"
)

// ---- protobuf reference: message { map<string,string> data = 1; } ----
// Each map entry is field 1, wire type 2 (tag 0x0a) holding a nested message with
// key = field 1 (tag 0x0a) and value = field 2 (tag 0x12), both length-delimited.

func refPbVarint(buf []byte, pos int) (ok bool, npos int, val uint64) {
	for i := 0; i < 10; i++ {
		if pos+i >= len(buf) {
			return false, pos, 0
		}
		b := buf[pos+i]
		val |= uint64(b&0x7f) << (7 * uint(i))
		if b < 0x80 {
			return true, pos + i + 1, val
		}
	}
	return false, pos, 0
}

type refEntry struct{ kpos, klen, vpos, vlen int }

// refParseStrict parses exactly what the encoder emits: entries with key then value.
func refParseStrict(buf []byte) (ok bool, entries []refEntry) {
	pos := 0
	for pos < len(buf) {
		if buf[pos] != 0x0a {
			return false, nil
		}
		o, p, l := refPbVarint(buf, pos+1)
		if !o || l > uint64(len(buf)-p) {
			return false, nil
		}
		end := p + int(l)
		// key
		if p >= end || buf[p] != 0x0a {
			return false, nil
		}
		o, p2, kl := refPbVarint(buf[:end], p+1)
		if !o || kl > uint64(end-p2) {
			return false, nil
		}
		e := refEntry{kpos: p2, klen: int(kl)}
		p = p2 + int(kl)
		if p >= end || buf[p] != 0x12 {
			return false, nil
		}
		o, p2, vl := refPbVarint(buf[:end], p+1)
		if !o || vl > uint64(end-p2) {
			return false, nil
		}
		e.vpos, e.vlen = p2, int(vl)
		if p2+int(vl) != end {
			return false, nil
		}
		entries = append(entries, e)
		pos = end
	}
	return true, entries
}

func bytesEqStr(b []byte, s string) bool {
	if len(b) != len(s) {
		return false
	}
	for i := range b {
		if b[i] != s[i] {
			return false
		}
	}
	return true
}

// VerifH_MetaRoundTrip: for maps with <= 2 entries (keys/values arbitrary bytes, len <= maxstr),
// every iteration order: Encode output is the protobuf layout and Decode(Encode(m)) == m.
func VerifH_MetaRoundTrip() {
	maxstr := vrt.Param("maxstr", 2)
	n := vrt.Int("n")
	vrt.Assume(n >= 0 && n <= vrt.Param("entries", 2))
	m := map[string]string{}
	k0, v0 := vrt.Str("k0", maxstr), vrt.Str("v0", maxstr)
	k1, v1 := vrt.Str("k1", maxstr), vrt.Str("v1", maxstr)
	if n >= 1 {
		m[k0] = v0
	}
	if n >= 2 {
		vrt.Assume(k1 != k0)
		m[k1] = v1
	}
	pre := vrt.Bytes("pre", 1)
	enc, err := Encode(append([]byte(nil), pre...), m)
	vrt.Assert(err == nil, "Encode does not fail")
	for i := range pre {
		vrt.Assert(enc[i] == pre[i], "Encode keeps the prefix")
	}
	body := enc[len(pre):]
	// protobuf layout
	ok, entries := refParseStrict(body)
	vrt.Assert(ok, "Encode output is the protobuf map<string,string> field 1 layout")
	vrt.Assert(len(entries) == n, "one protobuf entry per map entry")
	for _, e := range entries {
		key := body[e.kpos : e.kpos+e.klen]
		val := body[e.vpos : e.vpos+e.vlen]
		if n >= 1 && bytesEqStr(key, k0) {
			vrt.Assert(bytesEqStr(val, v0), "entry value intact (k0)")
		} else {
			vrt.Assert(n >= 2 && bytesEqStr(key, k1) && bytesEqStr(val, v1), "entry is one of the map's entries")
		}
	}
	if n == 0 {
		vrt.Assert(len(body) == 0, "empty map encodes to nothing")
	}
	// round trip
	dec, err := Decode(body)
	vrt.Assert(err == nil, "Decode accepts Encode output")
	vrt.Assert(len(dec) == n, "decoded map has the same number of entries")
	if n >= 1 {
		got, has := dec[k0]
		vrt.Assert(has && got == v0, "k0 round-trips")
	}
	if n >= 2 {
		got, has := dec[k1]
		vrt.Assert(has && got == v1, "k1 round-trips")
	}
	vrt.Cover("meta-rt-end")
	if n == 2 {
		vrt.Cover("meta-rt-two-entries")
	}
}

// VerifH_MetaVarintSize: varintSize(n) == len(AppendVarint(nil, n)) for every 64-bit n.
func VerifH_MetaVarintSize() {
	x := vrt.U64("x")
	vrt.Assert(varintSize(x) == uint64(len(drpcwire.AppendVarint(nil, x))), "varintSize equals the varint encoding length")
	vrt.Cover("varintsize-end")
}

// VerifH_MetaDecodeTotal: Decode on arbitrary bytes returns a map or an error, never panics,
// and when it succeeds the strict reference parser accepts too and yields the same pairs
// (last entry wins for duplicate keys).
func VerifH_MetaDecodeTotal() {
	buf := vrt.Bytes("buf", vrt.Param("maxlen", 9))
	m, err := Decode(buf)
	ok, entries := refParseStrict(buf)
	if err == nil {
		vrt.Assert(ok, "Decode accepts only the protobuf layout")
		for i, e := range entries {
			key := string(buf[e.kpos : e.kpos+e.klen])
			// last duplicate wins
			dup := false
			for _, e2 := range entries[i+1:] {
				if string(buf[e2.kpos:e2.kpos+e2.klen]) == key {
					dup = true
				}
			}
			if !dup {
				got, has := m[key]
				vrt.Assert(has && got == string(buf[e.vpos:e.vpos+e.vlen]), "decoded value equals reference")
			}
		}
		vrt.Assert(len(m) <= len(entries), "no invented entries")
		vrt.Cover("decode-ok")
		if len(entries) > 0 {
			vrt.Cover("decode-ok-nonempty")
		}
	} else {
		vrt.Assert(!ok, "Decode rejects only what the reference rejects")
		vrt.Assert(m == nil, "no map on error")
		vrt.Cover("decode-error")
	}
}

// VerifH_MetaDecodeOneLong: 16-byte hostile inputs in which one of the three length
// varints (outer entry / key / value, chosen symbolically) is free to use its full 10
// bytes while the surrounding structure is pinned; Decode must not panic and must
// accept exactly what the reference accepts.
func VerifH_MetaDecodeOneLong() {
	const n = 16
	buf := vrt.BytesN("buf", n)
	which := vrt.Int("which")
	vrt.Assume(which >= 0 && which <= 2)
	vrt.Assume(buf[0] == 0x0a)
	start := 1
	switch which {
	case 0: // outer length varint: buf[1..10]
	case 1: // key length varint: buf[3..12]
		vrt.Assume(buf[1] == n-2 && buf[2] == 0x0a)
		start = 3
	case 2: // value length varint: buf[5..14]
		vrt.Assume(buf[1] == n-2 && buf[2] == 0x0a && buf[3] == 0 && buf[4] == 0x12)
		start = 5
	}
	// the free varint is exactly ten bytes long: nine continuation bytes, value bits free
	for i := 0; i < 9; i++ {
		vrt.Assume(buf[start+i] >= 0x80)
	}
	vrt.Assume(buf[start+9] < 0x80)
	m, err := Decode(buf)
	ok, _ := refParseStrict(buf)
	vrt.Assert((err == nil) == ok, "Decode accepts exactly what the reference accepts")
	if err != nil {
		vrt.Assert(m == nil, "no map on error")
		vrt.Cover("onelong-error")
	} else {
		vrt.Cover("onelong-ok")
	}
}

// VerifH_MetaContextScoping: two call contexts are built from the same defaults map with
// AddPairs on a context without metadata, then each gets a per-call pair with Add. Each
// context carries exactly its own pairs, the caller's map is left alone, and changing that
// map afterwards does not change what a context carries.
func VerifH_MetaContextScoping() {
	base := hx.NewCtx()
	k := vrt.Str("k", 1)
	v := vrt.Str("v", 1)
	vrt.Assume(k != "call")
	defaults := map[string]string{k: v}
	ctxA := Add(AddPairs(base, defaults), "call", "A")
	ctxB := Add(AddPairs(base, defaults), "call", "B")
	vrt.Assert(len(defaults) == 1 && defaults[k] == v, "attaching pairs to a context does not modify the caller's map")
	defaults["late"] = "x"
	a, okA := Get(ctxA)
	b, okB := Get(ctxB)
	vrt.Assert(okA && okB, "both contexts carry metadata")
	vrt.Assert(len(a) == 2 && a[k] == v && a["call"] == "A", "the first call's context carries exactly the pairs attached to it")
	vrt.Assert(len(b) == 2 && b[k] == v && b["call"] == "B", "the second call's context carries exactly the pairs attached to it")
	_, okBase := Get(base)
	vrt.Assert(!okBase, "the parent context is left without metadata")
	// empty map: nothing attached
	_, okE := Get(AddPairs(base, map[string]string{}))
	vrt.Assert(!okE, "attaching an empty map attaches nothing")
	vrt.Cover("meta-scoping-end")
}
