package drpcwire

import (
	"io"

	vrt "storj.io/drpc/internal/verifrt"
)

type recW struct{ out []byte }

func (w *recW) Write(p []byte) (int, error) { w.out = append(w.out, p...); return len(p), nil }

// VerifH_WritePacketRoundTrip: a packet read by the current reader and re-emitted with
// Writer.WritePacket (what a forwarder or proxy does) is on the wire one frame that the
// reference parser and the reader decode to the same packet: kind (6 bits), control bit,
// both ids and the payload are preserved, the frame is marked done.
func VerifH_WritePacketRoundTrip() {
	pkt := Packet{
		ID:      ID{Stream: vrt.U64("sid"), Message: vrt.U64("mid")},
		Kind:    Kind(vrt.U8("kind") & 63),
		Control: vrt.Bool("control"),
		Data:    vrt.Bytes("data", 2),
	}
	vrt.Assume(pkt.ID.Stream >= 1 && pkt.ID.Message >= 1) // ids on the wire start at 1
	w := &recW{}
	wr := NewWriter(w, vrt.Param("wsize", 64))
	vrt.Assert(wr.WritePacket(pkt) == nil, "WritePacket succeeds")
	vrt.Assert(wr.Flush() == nil, "Flush succeeds")
	st, consumed, fr := refParseFrame(w.out)
	vrt.Assert(st == refOK && consumed == len(w.out), "the output is exactly one well-formed frame")
	if st != refOK {
		return
	}
	vrt.Assert(fr.kind == uint8(pkt.Kind), "kind preserved")
	vrt.Assert(fr.control == pkt.Control, "control bit preserved (older peers skip control packets they do not know)")
	vrt.Assert(fr.done, "a packet written as one frame is marked done")
	vrt.Assert(fr.stream == pkt.ID.Stream && fr.message == pkt.ID.Message, "ids preserved")
	vrt.Assert(fr.length == len(pkt.Data), "payload length preserved")
	rd := NewReader(&scriptReader{data: w.out, finalErr: io.EOF})
	got, err := rd.ReadPacket()
	vrt.Assert(err == nil, "the reader accepts the forwarded packet")
	if err == nil {
		vrt.Assert(got.Kind == pkt.Kind && got.Control == pkt.Control && got.ID == pkt.ID && len(got.Data) == len(pkt.Data), "the reader returns the same packet")
		for i := range pkt.Data {
			vrt.Assert(got.Data[i] == pkt.Data[i], "payload bytes preserved")
		}
	}
	vrt.Cover("writepacket-end")
}
