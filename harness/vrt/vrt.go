// Package verifrt is the harness runtime for the gosmt symbolic executor.
//
// Under the engine every function below is an intrinsic (nondeterministic
// inputs, assumptions, assertions, scheduling points). Compiled natively the
// same functions replay one concrete model: inputs are read from the JSON
// file named by VRT_MODEL, a failed Assert is reported and makes the replay
// test fail. The harness that the solver refuted is therefore byte-for-byte
// the code that is replayed against the real build.
package verifrt

import (
	"encoding/json"
	"fmt"
	"os"
	"sync"
)

type modelFile struct {
	Model  map[string]uint64 `json:"model"`
	Params map[string]int    `json:"params"`
}

var (
	mu      sync.Mutex
	loaded  bool
	model   modelFile
	counts  = map[string]int{}
	Failed  []string
	Covered []string
)

func load() {
	if loaded {
		return
	}
	loaded = true
	model.Model = map[string]uint64{}
	model.Params = map[string]int{}
	if p := os.Getenv("VRT_MODEL"); p != "" {
		b, err := os.ReadFile(p)
		if err != nil {
			panic(err)
		}
		if err := json.Unmarshal(b, &model); err != nil {
			panic(err)
		}
	}
}

func get(name string) uint64 {
	mu.Lock()
	defer mu.Unlock()
	load()
	c := counts[name]
	counts[name] = c + 1
	full := name
	if c > 0 {
		full = fmt.Sprintf("%s#%d", name, c+1)
	}
	return model.Model[full]
}

// Reset clears per-run state (native replay only).
func Reset() {
	mu.Lock()
	defer mu.Unlock()
	counts = map[string]int{}
	Failed = nil
	Covered = nil
}

func U64(name string) uint64 { return get(name) }
func U32(name string) uint32 { return uint32(get(name)) }
func U16(name string) uint16 { return uint16(get(name)) }
func U8(name string) uint8   { return uint8(get(name)) }
func Int(name string) int    { return int(int64(get(name))) }
func Bool(name string) bool  { return get(name) != 0 }

// Bytes returns a byte slice of symbolic length in [0,max] and symbolic content.
func Bytes(name string, max int) []byte {
	b := make([]byte, max)
	for i := range b {
		b[i] = byte(get(fmt.Sprintf("%s[%d]", name, i)))
	}
	n := int(get(name + ".len"))
	if n > max {
		n = max
	}
	return b[:n:max]
}

// BytesN returns a byte slice of fixed length n and symbolic content.
func BytesN(name string, n int) []byte {
	b := make([]byte, n)
	for i := range b {
		b[i] = byte(get(fmt.Sprintf("%s[%d]", name, i)))
	}
	return b
}

// Str is Bytes as an immutable string.
func Str(name string, max int) string { return string(Bytes(name, max)) }

// Param returns a harness bound configured by the check (default def).
func Param(name string, def int) int {
	mu.Lock()
	defer mu.Unlock()
	load()
	if v, ok := model.Params[name]; ok {
		return v
	}
	return def
}

type assumeFailed struct{}

// Assume restricts the inputs. Natively a violated assumption aborts the replay as "not applicable".
func Assume(c bool) {
	if !c {
		panic(assumeFailed{})
	}
}

// Assert states a property obligation.
func Assert(c bool, label string) {
	if !c {
		mu.Lock()
		Failed = append(Failed, label)
		mu.Unlock()
		fmt.Printf("VRT-ASSERT-FAILED %s\n", label)
	}
}

// Fail is Assert(false) and ends the path.
func Fail(label string) {
	Assert(false, label)
	panic(assumeFailed{})
}

// Cover is a reachability witness.
func Cover(label string) {
	mu.Lock()
	Covered = append(Covered, label)
	mu.Unlock()
}

// Tag records a fact used to identify known findings.
func Tag(label string, c bool) {}

// Native reports whether the code runs natively (true) or under the engine (false).
func Native() bool { return true }

// RunReplay runs a harness natively and reports the outcome.
func RunReplay(h func()) (failed []string, panicked interface{}, assumeViolated bool) {
	Reset()
	defer func() {
		if r := recover(); r != nil {
			if _, ok := r.(assumeFailed); ok {
				assumeViolated = len(Failed) == 0
				failed = Failed
				return
			}
			panicked = r
			failed = Failed
		}
	}()
	h()
	return Failed, nil, false
}

// RunReplayTimeout is RunReplay with a deadline: a harness that does not
// return within the given number of seconds is reported as hung (deadlock).
func RunReplayTimeout(h func(), seconds int) (failed []string, panicked interface{}, assumeViolated bool) {
	type res struct {
		f []string
		p interface{}
		a bool
	}
	ch := make(chan res, 1)
	go func() {
		f, p, a := RunReplay(h)
		ch <- res{f, p, a}
	}()
	select {
	case r := <-ch:
		return r.f, r.p, r.a
	case <-timeAfter(seconds):
		fmt.Println("VRT-DEADLOCK harness did not return")
		return Failed, "timeout", false
	}
}

// Quiesce blocks until every other harness goroutine has finished or is blocked.
// Natively this is approximated by waiting (replay of schedule-dependent
// violations is driven by the recorded schedule, see replay notes).
func Quiesce() { nativeQuiesce() }

// Yield is an explicit scheduling point.
func Yield() { nativeYield() }

// Share marks the object behind the pointer as shared between threads
// (fine-grained interleaving mode makes its plain loads/stores visible).
func Share(p interface{}) {}

// WaitFor blocks until *flag is true.
func WaitFor(flag *bool) {
	for {
		mu.Lock()
		v := *flag
		mu.Unlock()
		if v {
			return
		}
		nativeYield()
	}
}

// Finished reports whether harness thread id (in spawn order, 1-based) has returned.
func Finished(id int) bool { return false }

// Unfinished returns the number of other harness threads (goroutines started by the
// harness or by the code under test) that have not returned. Natively it is unknown (0).
func Unfinished() int { return 0 }

// UseModel switches the replay to another model file (native only).
func UseModel(path string) {
	mu.Lock()
	loaded = false
	os.Setenv("VRT_MODEL", path)
	mu.Unlock()
}

// HasCover reports whether the label was reached in the last native run.
func HasCover(label string) bool {
	mu.Lock()
	defer mu.Unlock()
	for _, c := range Covered {
		if c == label {
			return true
		}
	}
	return false
}

// ThreadID identifies the calling harness thread (0 = the harness's main thread). Natively
// it is always 0.
func ThreadID() int { return 0 }

// Choice returns a solver-chosen value in [0,n); the engine concretises it by forking.
func Choice(name string, n int) int {
	v := int(get(name))
	if v < 0 || v >= n {
		return 0
	}
	return v
}
