#!/bin/bash
# usage: run.sh [repo-dir] [count]   Exit 1 = defect demonstrated.
# F15 is the cause of the repository's own intermittent TestCancelRepeatedPooled failure
# ("cancel_test.go:253: context canceled"): before the fix about 4% of the runs fail, after it none.
REPO=${1:-/repo}; N=${2:-200}
cd "$REPO/internal/integration" || exit 2
out=$(GOPROXY=off GOFLAGS=-mod=mod go test -vet=off -count=$N -run TestCancelRepeatedPooled . 2>&1)
f=$(echo "$out" | grep -c "^--- FAIL")
echo "TestCancelRepeatedPooled: $f failures in $N runs"
[ "$f" -eq 0 ]
