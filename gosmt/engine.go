package main

import (
	"fmt"
	"go/token"
	"go/types"
	"sort"
	"strings"
	"sync"
	"sync/atomic"
	"time"

	"golang.org/x/tools/go/ssa"
)

type Config struct {
	K               int
	Fine            bool
	MaxSteps        int
	MaxPaths        int
	MaxDepth        int
	MaxAlloc        int
	MaxThreads      int
	MaxConcretize   int
	MapOrders       bool
	QueryTimeout    int // ms
	Solver          string
	Seed            int
	Deadline        time.Time
	MaxViolations   int
	StopOnViolation bool
	Workers         int
	Dedup           bool
	Race            bool
}

func DefaultConfig() Config {
	return Config{MaxSteps: 200000, MaxPaths: 2000000, MaxDepth: 64, MaxAlloc: 1 << 16, MaxThreads: 12,
		MaxConcretize: 80, MapOrders: true, QueryTimeout: 60000, MaxViolations: 8, Workers: 1, Dedup: true, Race: true}
}

type Violation struct {
	Kind      string            `json:"kind"` // assert | panic | deadlock
	Label     string            `json:"label"`
	Pos       string            `json:"pos"`
	Model     map[string]uint64 `json:"model"`
	Tags      []string          `json:"tags"`
	Trace     []SchedEvent      `json:"trace,omitempty"`
	Notes     []string          `json:"notes,omitempty"`
	Stack     string            `json:"stack,omitempty"`
	Known     string            `json:"known,omitempty"`
	Replay    string            `json:"replay,omitempty"`
	Confirmed bool              `json:"confirmed"`
}

type CoverHit struct {
	Count int               `json:"count"`
	Model map[string]uint64 `json:"model,omitempty"`
	Trace []SchedEvent      `json:"trace,omitempty"`
}

type HarnessResult struct {
	Harness      string               `json:"harness"`
	Paths        int                  `json:"paths"`
	PathsAssumed int                  `json:"paths_pruned_by_assume"`
	Deadlocks    int                  `json:"deadlock_paths"`
	Steps        int                  `json:"steps"`
	Forks        int                  `json:"forks"`
	Obligations  int                  `json:"obligations"`
	Discharged   int                  `json:"discharged"`
	Trivial      int                  `json:"trivially_true_asserts"`
	Asserts      map[string]int       `json:"asserts"`
	Covers       map[string]*CoverHit `json:"covers"`
	Violations   []*Violation         `json:"violations"`
	Inconclusive []string             `json:"inconclusive"`
	Queries      int                  `json:"queries"`
	Sat          int                  `json:"sat"`
	Unsat        int                  `json:"unsat"`
	Unknown      int                  `json:"unknown"`
	SolverTime   float64              `json:"solver_time_s"`
	Wall         float64              `json:"wall_s"`
	Funcs        []string             `json:"functions_encoded"`
	SolverErrors []string             `json:"solver_errors"`
	MaxThreads   int                  `json:"max_threads"`
	K            int                  `json:"preemption_bound"`
	Schedules    int                  `json:"schedule_forks"`
	Pruned       int64                `json:"states_pruned_as_duplicates"`
}

type Engine struct {
	prog        *ssa.Program
	ts          *TermStore
	solver      *Solver
	cfg         Config
	fnInfo      map[*ssa.Function]*FnInfo
	funcsUsed   map[string]bool
	globals     map[*ssa.Global]int
	initialized map[*ssa.Package]bool
	initPhase   bool
	subst       map[string]*ssa.Function
	fine        bool
	sharedObjs  map[int]bool
	res         *HarnessResult
	violSeen    map[string]int
	sh          *sharedState
	initOK      func(p *ssa.Package) bool
	params      map[string]int
	recvSubst   map[string]*ssa.Function
}

func NewEngine(prog *ssa.Program, cfg Config) (*Engine, error) {
	ts := NewTermStore()
	s, err := NewSolver(ts, cfg.Solver, cfg.QueryTimeout, cfg.Seed)
	if err != nil {
		return nil, err
	}
	return &Engine{prog: prog, ts: ts, solver: s, cfg: cfg, fnInfo: map[*ssa.Function]*FnInfo{},
		funcsUsed: map[string]bool{}, globals: map[*ssa.Global]int{}, initialized: map[*ssa.Package]bool{},
		subst: map[string]*ssa.Function{}, fine: cfg.Fine, sharedObjs: map[int]bool{}, violSeen: map[string]int{}, sh: &sharedState{violSeen: map[string]int{}, visited: &visitedSet{m: map[uint64]struct{}{}}}}, nil
}

func (e *Engine) newState() *State {
	st := &State{heap: []Value{nil}, known: map[int]bool{}, conc: map[int]uint64{}, names: map[string]int{}, globals: map[*ssa.Global]int{}}
	st.threads = []*Thread{{id: 0, started: true, name: "main"}}
	return st
}

// runInit executes the package initialisers of the given packages (in order) concretely.
func (e *Engine) runInit(st *State, pkgs []*ssa.Package) error {
	e.initPhase = true
	defer func() { e.initPhase = false }()
	for _, p := range pkgs {
		if e.initialized[p] {
			continue
		}
		fn := p.Func("init")
		if fn == nil {
			continue
		}
		th := st.threads[0]
		th.finished = false
		th.frames = []*Frame{e.newFrame(fn, nil, nil)}
		for !th.finished {
			out := e.stepSafe(st)
			if out != nil {
				return fmt.Errorf("init of %s: %v", p.Pkg.Path(), describeOutcome(out))
			}
		}
		e.initialized[p] = true
	}
	st.threads[0].finished = false
	st.steps = 0
	return nil
}

func describeOutcome(o interface{}) string {
	switch x := o.(type) {
	case goPanic:
		return "panic: " + x.msg
	case EngineError:
		return "engine error: " + x.msg
	case inconclusive:
		return "inconclusive: " + x.msg
	case pathEnd:
		return "path end: " + x.kind
	}
	return fmt.Sprintf("%T %v", o, o)
}

// stepSafe executes one step of the current thread, returning a control signal if raised.
func (e *Engine) stepSafe(st *State) (out interface{}) {
	defer func() {
		if r := recover(); r != nil {
			switch r.(type) {
			case forkCond, forkVals, forkSched, yield, pathEnd, goPanic, inconclusive, EngineError:
				out = r
			default:
				panic(r)
			}
		}
	}()
	th := st.thread()
	if th.finished {
		if th.id == 0 {
			return pathEnd{"exit"}
		}
		e.schedule(st, "thread-exit", token.NoPos)
		return nil
	}
	fr := th.top()
	if fr.pc >= len(fr.block.Instrs) {
		panic(engErr("pc past end of block in %v", fr.fn))
	}
	if st.boundLabel != "" && st.steps > st.boundDeadline {
		// a vrt.Bounded region ran past its step bound: bounded-termination obligation violated
		lbl := st.boundLabel
		st.boundLabel = ""
		e.assert(st, e.ts.False, lbl, fr.block.Instrs[fr.pc].Pos())
	}
	instr := fr.block.Instrs[fr.pc]
	e.execInstr(st, th, fr, instr)
	st.steps++
	return nil
}

func (e *Engine) curPos(st *State) (string, string) {
	th := st.thread()
	if len(th.frames) == 0 {
		return "?", ""
	}
	var stack []string
	pos := "?"
	for i := len(th.frames) - 1; i >= 0; i-- {
		f := th.frames[i]
		p := "?"
		if f.pc < len(f.block.Instrs) {
			// find nearest instruction with position
			for j := f.pc; j >= 0; j-- {
				if f.block.Instrs[j].Pos().IsValid() {
					p = posOf(e.prog, f.block.Instrs[j].Pos())
					break
				}
			}
		}
		if pos == "?" {
			pos = p
		}
		stack = append(stack, fmt.Sprintf("%s(%s)", f.fn.String(), shortPos(p)))
		if len(stack) > 12 {
			break
		}
	}
	return pos, strings.Join(stack, " < ")
}

func shortPos(p string) string {
	if i := strings.LastIndex(p, "/"); i >= 0 {
		return p[i+1:]
	}
	return p
}

func (e *Engine) recordViolation(st *State, kind, label, pos string, model map[string]uint64) *Violation {
	tags := append([]string(nil), st.tags...)
	sort.Strings(tags)
	key := kind + "|" + label + "|" + strings.Join(tags, ",")
	e.sh.mu.Lock()
	e.sh.violSeen[key]++
	n := e.sh.violSeen[key]
	e.sh.mu.Unlock()
	atomic.AddInt64(&e.sh.nviol, 1)
	if n > e.cfg.MaxViolations {
		return nil
	}
	_, stack := e.curPos(st)
	v := &Violation{Kind: kind, Label: label, Pos: pos, Model: model, Tags: tags,
		Trace: append([]SchedEvent(nil), st.trace...), Notes: append([]string(nil), st.notes...), Stack: stack}
	e.res.Violations = append(e.res.Violations, v)
	return v
}

func (e *Engine) modelFor(st *State, extra *Term) map[string]uint64 {
	r, m := e.solver.Check(st.pc, extra, st.vars)
	if r != RSat {
		return nil
	}
	// fill in unconstrained vars with 0 and concretized values
	for _, v := range st.vars {
		if _, ok := m[v.name]; !ok {
			m[v.name] = 0
		}
	}
	return m
}

func (e *Engine) assert(st *State, c *Term, label string, pos token.Pos) {
	e.res.Asserts[label]++
	if c.IsTrue() {
		e.res.Trivial++
		return
	}
	if v, ok := st.known[c.id]; ok && v {
		e.res.Trivial++
		return
	}
	e.res.Obligations++
	nc := e.ts.Not(c)
	if !c.IsFalse() {
		if e.check(st.pc, nc) == RUnsat {
			e.res.Discharged++
			st.known[c.id] = true
			return
		}
	}
	var extra *Term
	if !c.IsFalse() {
		extra = nc
	}
	model := e.modelFor(st, extra)
	e.recordViolation(st, "assert", label, posOf(e.prog, pos), model)
	if c.IsFalse() {
		panic(pathEnd{"violated"})
	}
	if e.check(st.pc, c) == RUnsat {
		panic(pathEnd{"violated"})
	}
	e.pushPC(st, c)
}

func (e *Engine) cover(st *State, label string) {
	h := e.res.Covers[label]
	if h == nil {
		h = &CoverHit{}
		e.res.Covers[label] = h
		h.Model = e.modelFor(st, nil)
		h.Trace = append([]SchedEvent(nil), st.trace...)
	}
	h.Count++
}

// RunHarness explores all paths of the harness function.
func (e *Engine) RunHarness(fn *ssa.Function, initPkgs []*ssa.Package) *HarnessResult {
	start := time.Now()
	e.res = &HarnessResult{Harness: fn.Name(), Asserts: map[string]int{}, Covers: map[string]*CoverHit{}, K: e.cfg.K}
	st0 := e.newState()
	if err := e.runInit(st0, initPkgs); err != nil {
		e.res.Inconclusive = append(e.res.Inconclusive, err.Error())
		return e.finish(start)
	}
	st0.budget = e.cfg.K
	st0.threads[0].frames = []*Frame{e.newFrame(fn, nil, nil)}
	nw := e.cfg.Workers
	if nw < 1 {
		nw = 1
	}
	q := &workQueue{n: nw}
	q.cond = sync.NewCond(&q.mu)
	q.items = []*State{st0}
	workers := []*Engine{e}
	for i := 1; i < nw; i++ {
		w, err := e.workerCopy()
		if err != nil {
			e.res.Inconclusive = append(e.res.Inconclusive, err.Error())
			break
		}
		workers = append(workers, w)
	}
	q.n = len(workers)
	var wg sync.WaitGroup
	for _, w := range workers {
		wg.Add(1)
		go func(w *Engine) {
			defer wg.Done()
			defer func() {
				if r := recover(); r != nil {
					w.res.Inconclusive = append(w.res.Inconclusive, fmt.Sprintf("engine crash: %v", r))
					q.abort()
				}
			}()
			w.workerLoop(q)
		}(w)
	}
	wg.Wait()
	for _, w := range workers[1:] {
		e.mergeFrom(w)
		w.solver.Close()
	}
	return e.finish(start)
}

type sharedState struct {
	mu       sync.Mutex
	ptrIDs   map[interface{}]uint64
	typeIDs  map[string]uint64
	visited  *visitedSet
	pruned   int64
	rtype    types.Type
	violSeen map[string]int
	npaths   int64
	nviol    int64
}

type workQueue struct {
	mu    sync.Mutex
	cond  *sync.Cond
	items []*State
	idle  int
	n     int
	done  bool
}

func (q *workQueue) abort() {
	q.mu.Lock()
	q.done = true
	q.items = nil
	q.cond.Broadcast()
	q.mu.Unlock()
}

func (q *workQueue) take() *State {
	q.mu.Lock()
	defer q.mu.Unlock()
	for len(q.items) == 0 {
		if q.done {
			return nil
		}
		q.idle++
		if q.idle == q.n {
			q.done = true
			q.cond.Broadcast()
			return nil
		}
		q.cond.Wait()
		q.idle--
		if q.done {
			q.idle++
			return nil
		}
	}
	st := q.items[len(q.items)-1]
	q.items = q.items[:len(q.items)-1]
	return st
}

func (q *workQueue) hungry() bool {
	q.mu.Lock()
	defer q.mu.Unlock()
	return len(q.items) == 0 && q.idle > 0
}

func (q *workQueue) give(sts []*State) {
	q.mu.Lock()
	q.items = append(q.items, sts...)
	q.cond.Broadcast()
	q.mu.Unlock()
}

func (e *Engine) workerCopy() (*Engine, error) {
	s, err := NewSolver(e.ts, e.cfg.Solver, e.cfg.QueryTimeout, e.cfg.Seed)
	if err != nil {
		return nil, err
	}
	w := *e
	w.solver = s
	w.fnInfo = map[*ssa.Function]*FnInfo{}
	w.funcsUsed = map[string]bool{}
	w.res = &HarnessResult{Harness: e.res.Harness, Asserts: map[string]int{}, Covers: map[string]*CoverHit{}, K: e.cfg.K}
	return &w, nil
}

func (e *Engine) mergeFrom(w *Engine) {
	r, o := e.res, w.res
	r.Paths += o.Paths
	r.PathsAssumed += o.PathsAssumed
	r.Deadlocks += o.Deadlocks
	r.Steps += o.Steps
	r.Forks += o.Forks
	r.Obligations += o.Obligations
	r.Discharged += o.Discharged
	r.Trivial += o.Trivial
	r.Schedules += o.Schedules
	if o.MaxThreads > r.MaxThreads {
		r.MaxThreads = o.MaxThreads
	}
	for k, v := range o.Asserts {
		r.Asserts[k] += v
	}
	for k, v := range o.Covers {
		if h := r.Covers[k]; h != nil {
			h.Count += v.Count
		} else {
			r.Covers[k] = v
		}
	}
	r.Violations = append(r.Violations, o.Violations...)
	for _, m := range o.Inconclusive {
		e.addInconclusive(m)
	}
	for f := range w.funcsUsed {
		e.funcsUsed[f] = true
	}
	e.solver.Queries += w.solver.Queries
	e.solver.Sat += w.solver.Sat
	e.solver.Unsat += w.solver.Unsat
	e.solver.Unknown += w.solver.Unknown
	e.solver.Time += w.solver.Time
	e.solver.Errors = append(e.solver.Errors, w.solver.Errors...)
}

func (e *Engine) workerLoop(q *workQueue) {
	var local []*State
	for {
		if len(local) == 0 {
			st := q.take()
			if st == nil {
				return
			}
			local = append(local, st)
		}
		if atomic.LoadInt64(&e.sh.npaths) >= int64(e.cfg.MaxPaths) {
			e.addInconclusive("path limit reached")
			q.abort()
			return
		}
		if !e.cfg.Deadline.IsZero() && time.Now().After(e.cfg.Deadline) {
			e.addInconclusive("time limit reached")
			q.abort()
			return
		}
		if len(e.res.Inconclusive) > 20 {
			q.abort()
			return
		}
		if e.cfg.StopOnViolation && atomic.LoadInt64(&e.sh.nviol) > 0 {
			q.abort()
			return
		}
		st := local[len(local)-1]
		local = local[:len(local)-1]
		local = e.runPath(st, local)
		atomic.AddInt64(&e.sh.npaths, 1)
		if len(local) > 1 && q.hungry() {
			h := len(local) / 2
			q.give(local[:h])
			local = append([]*State(nil), local[h:]...)
		}
	}
}

func (e *Engine) finish(start time.Time) *HarnessResult {
	r := e.res
	r.Queries = e.solver.Queries
	r.Pruned = atomic.LoadInt64(&e.sh.pruned)
	r.Sat = e.solver.Sat
	r.Unsat = e.solver.Unsat
	r.Unknown = e.solver.Unknown
	r.SolverTime = e.solver.Time.Seconds()
	r.SolverErrors = e.solver.Errors
	if len(e.solver.Errors) > 0 {
		r.Inconclusive = append(r.Inconclusive, "solver errors: "+e.solver.Errors[0])
	}
	r.Wall = time.Since(start).Seconds()
	for f := range e.funcsUsed {
		r.Funcs = append(r.Funcs, f)
	}
	sort.Strings(r.Funcs)
	e.solver.Close()
	return r
}

func (e *Engine) addInconclusive(msg string) {
	for _, m := range e.res.Inconclusive {
		if m == msg {
			return
		}
	}
	e.res.Inconclusive = append(e.res.Inconclusive, msg)
}

func (e *Engine) runPath(st *State, work []*State) []*State {
	for {
		if st.steps > e.cfg.MaxSteps {
			pos, stack := e.curPos(st)
			e.addInconclusive(fmt.Sprintf("step limit (unwinding bound) exceeded at %s [%s]", pos, stack))
			e.res.Paths++
			e.res.Steps += st.steps
			return work
		}
		if len(st.threads) > e.res.MaxThreads {
			e.res.MaxThreads = len(st.threads)
		}
		out := e.stepSafe(st)
		if out == nil {
			continue
		}
		switch x := out.(type) {
		case yield:
			continue
		case forkCond:
			e.res.Forks++
			s2 := st.clone()
			nc := e.ts.Not(x.c)
			s2.pc = s2.pc.push(nc)
			s2.known[x.c.id] = false
			work = append(work, s2)
			st.pc = st.pc.push(x.c)
			st.known[x.c.id] = true
			if x.pol {
				s2.witness = nil
			} else {
				st.witness = nil
			}
			continue
		case forkVals:
			e.res.Forks++
			for i := len(x.vals) - 1; i >= 0; i-- {
				s := st
				if i > 0 {
					s = st.clone()
				}
				var c *Term
				if x.t.w == 0 {
					c = e.ts.Eq(x.t, e.ts.Bool(x.vals[i] != 0))
				} else {
					c = e.ts.Eq(x.t, e.ts.BV(x.t.w, x.vals[i]))
				}
				if !strings.HasPrefix(x.t.name, "$choice") || x.t.op != OpVar {
					e.pushPC(s, c)
				}
				s.conc[x.t.id] = x.vals[i]
				if i > 0 {
					work = append(work, s)
				}
			}
			continue
		case forkSched:
			e.res.Schedules++
			th := st.thread()
			op, pos := "op", token.NoPos
			if in := pendingInstr(th); in != nil && !th.finished {
				pos = in.Pos()
				op = instrOpName(in)
			}
			dropSelf := false
			for i := len(x.opts) - 1; i >= 0; i-- {
				s := st
				if i > 0 {
					s = st.clone()
				}
				e.applySched(s, x.opts[i], op, pos)
				if e.seenState(s) {
					atomic.AddInt64(&e.sh.pruned, 1)
					if i == 0 {
						dropSelf = true
					}
					continue
				}
				if i > 0 {
					work = append(work, s)
				}
			}
			if dropSelf {
				e.res.Paths++
				e.res.Steps += st.steps
				return work
			}
			continue
		case pathEnd:
			e.res.Paths++
			e.res.Steps += st.steps
			switch x.kind {
			case "assume":
				e.res.PathsAssumed++
			case "deadlock":
				e.res.Deadlocks++
				pos, _ := e.curPos(st)
				blocked := e.describeBlocked(st)
				st.notes = append(st.notes, blocked...)
				e.recordViolation(st, "deadlock", "deadlock: no thread can make progress", pos, e.modelFor(st, nil))
			}
			return work
		case goPanic:
			e.res.Paths++
			e.res.Steps += st.steps
			pos, _ := e.curPos(st)
			e.recordViolation(st, "panic", "panic: "+x.msg, pos, e.modelFor(st, nil))
			return work
		case inconclusive:
			e.res.Paths++
			pos, stack := e.curPos(st)
			e.addInconclusive(fmt.Sprintf("%s at %s [%s]", x.msg, pos, stack))
			return work
		case EngineError:
			e.res.Paths++
			pos, stack := e.curPos(st)
			e.addInconclusive(fmt.Sprintf("engine: %s at %s [%s]", x.msg, pos, stack))
			return work
		}
	}
}

func instrOpName(in ssa.Instruction) string {
	switch x := in.(type) {
	case *ssa.Call:
		if f := x.Common().StaticCallee(); f != nil {
			return f.Name()
		}
		if x.Common().IsInvoke() {
			return x.Common().Method.Name()
		}
		return "call"
	case *ssa.Send:
		return "send"
	case *ssa.Select:
		return "select"
	case *ssa.UnOp:
		if x.Op == token.ARROW {
			return "recv"
		}
		return "load"
	case *ssa.Store:
		return "store"
	}
	return "op"
}
