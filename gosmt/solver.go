package main

// Incremental SMT solver process (z3 -in / cvc5 --incremental) with a stack
// of asserted path-condition nodes.

import (
	"bufio"
	"fmt"
	"io"
	"os"
	"os/exec"
	"strconv"
	"strings"
	"time"
)

// PC is a persistent linked list of path-condition conjuncts.
type PC struct {
	parent *PC
	t      *Term
	depth  int
}

func (p *PC) push(t *Term) *PC {
	d := 1
	if p != nil {
		d = p.depth + 1
	}
	return &PC{parent: p, t: t, depth: d}
}

func (p *PC) list() []*Term {
	var out []*Term
	for q := p; q != nil; q = q.parent {
		out = append(out, q.t)
	}
	for i, j := 0, len(out)-1; i < j; i, j = i+1, j-1 {
		out[i], out[j] = out[j], out[i]
	}
	return out
}

type Solver struct {
	cmd      *exec.Cmd
	in       io.WriteCloser
	bw       *bufio.Writer
	out      *bufio.Reader
	ts       *TermStore
	stack    []*PC   // asserted nodes, one push level each
	defd     [][]int // term ids defined at each level (level 0 = base)
	isDef    map[int]bool
	Queries  int
	Sat      int
	Unsat    int
	Unknown  int
	Time     time.Duration
	Errors   []string
	kind     string
	timeout  int // ms per query
	logw     io.Writer
	killed   bool
	Timeouts int
	seed     int
}

func NewSolver(ts *TermStore, kind string, timeoutMs int, seed int) (*Solver, error) {
	s := &Solver{ts: ts, kind: kind, timeout: timeoutMs, seed: seed}
	if err := s.start(); err != nil {
		return nil, err
	}
	return s, nil
}

func (s *Solver) start() error {
	kind, seed := s.kind, s.seed
	var cmd *exec.Cmd
	switch kind {
	case "z3":
		cmd = exec.Command("z3", "-in", "-smt2")
	case "z3-new", "":
		kind = "z3-new"
		cmd = exec.Command("z3-new", "-in", "-smt2")
	case "cvc5":
		cmd = exec.Command("cvc5", "--incremental", "--lang=smt2", "--produce-models")
	default:
		return fmt.Errorf("unknown solver %q", kind)
	}
	in, err := cmd.StdinPipe()
	if err != nil {
		return err
	}
	outp, err := cmd.StdoutPipe()
	if err != nil {
		return err
	}
	cmd.Stderr = cmd.Stdout
	if err := cmd.Start(); err != nil {
		return err
	}
	s.cmd, s.in, s.bw, s.out = cmd, in, bufio.NewWriterSize(in, 1<<16), bufio.NewReaderSize(outp, 1<<16)
	s.isDef = map[int]bool{}
	s.kind = kind
	s.stack = nil
	s.defd = [][]int{nil}
	if lf := os.Getenv("GOSMT_LOG"); lf != "" {
		f, _ := os.Create(lf)
		s.logw = f
	}
	if kind == "cvc5" {
		s.send("(set-logic QF_BV)")
	} else {
		s.send("(set-option :produce-models true)")
		if seed != 0 {
			s.send(fmt.Sprintf("(set-option :smt.random_seed %d)", seed))
			s.send(fmt.Sprintf("(set-option :sat.random_seed %d)", seed))
		}
	}
	return nil
}

func (s *Solver) Close() {
	if s.cmd != nil {
		s.in.Close()
		s.cmd.Process.Kill()
		s.cmd.Wait()
		s.cmd = nil
	}
}

func (s *Solver) send(line string) {
	if s.logw != nil {
		fmt.Fprintln(s.logw, line)
	}
	s.bw.WriteString(line)
	s.bw.WriteByte('\n')
}

func (s *Solver) readLine() string {
	s.bw.Flush()
	line, err := s.out.ReadString('\n')
	if err != nil {
		if s.killed {
			return "timeout"
		}
		s.Errors = append(s.Errors, "solver read error: "+err.Error())
		return "error"
	}
	return strings.TrimSpace(line)
}

// define makes sure t and all its subterms are declared/defined.
func (s *Solver) define(t *Term) {
	if t.op == OpConst || s.isDef[t.id] {
		return
	}
	// iterative post-order to avoid deep recursion
	type fr struct {
		t *Term
		i int
	}
	st := []fr{{t, 0}}
	for len(st) > 0 {
		f := &st[len(st)-1]
		if f.t.op == OpConst || s.isDef[f.t.id] {
			st = st[:len(st)-1]
			continue
		}
		if f.i < len(f.t.args) {
			a := f.t.args[f.i]
			f.i++
			if a.op != OpConst && !s.isDef[a.id] {
				st = append(st, fr{a, 0})
			}
			continue
		}
		tt := f.t
		if tt.op == OpVar {
			s.send(fmt.Sprintf("(declare-const %s %s)", smtName(tt), sortStr(tt.w)))
		} else {
			s.send(fmt.Sprintf("(define-fun %s () %s %s)", smtName(tt), sortStr(tt.w), tt.body()))
		}
		s.isDef[tt.id] = true
		lvl := len(s.defd) - 1
		s.defd[lvl] = append(s.defd[lvl], tt.id)
		st = st[:len(st)-1]
	}
}

func (s *Solver) pushLevel() {
	s.send("(push 1)")
	s.defd = append(s.defd, nil)
}

func (s *Solver) popLevel() {
	s.send("(pop 1)")
	lvl := len(s.defd) - 1
	for _, id := range s.defd[lvl] {
		delete(s.isDef, id)
	}
	s.defd = s.defd[:lvl]
}

// sync makes the solver's assertion stack equal to pc.
func (s *Solver) sync(pc *PC) {
	depth := 0
	if pc != nil {
		depth = pc.depth
	}
	// pop levels beyond depth
	for len(s.stack) > depth {
		s.popLevel()
		s.stack = s.stack[:len(s.stack)-1]
	}
	// find chain of pc nodes up to current stack length
	nodes := make([]*PC, depth)
	for q := pc; q != nil; q = q.parent {
		nodes[q.depth-1] = q
	}
	// find common prefix
	k := len(s.stack)
	for k > 0 && s.stack[k-1] != nodes[k-1] {
		k--
	}
	// need all of stack[0:k] equal; check downward
	for i := 0; i < k; i++ {
		if s.stack[i] != nodes[i] {
			k = i
			break
		}
	}
	for len(s.stack) > k {
		s.popLevel()
		s.stack = s.stack[:len(s.stack)-1]
	}
	for i := k; i < depth; i++ {
		s.pushLevel()
		s.define(nodes[i].t)
		s.send(fmt.Sprintf("(assert %s)", smtName(nodes[i].t)))
		s.stack = append(s.stack, nodes[i])
	}
}

type Result int

const (
	RUnsat Result = iota
	RSat
	RUnknown
)

// Check decides pc ∧ extra. If wantModel, a model over the given vars is returned on sat.
func (s *Solver) Check(pc *PC, extra *Term, modelVars []*Term) (Result, map[string]uint64) {
	start := time.Now()
	defer func() {
		d := time.Since(start)
		s.Time += d
		if slowLog > 0 && d > time.Duration(slowLog)*time.Millisecond {
			ex := "nil"
			if extra != nil {
				ex = extra.strDepth(4)
			}
			fmt.Fprintf(os.Stderr, "SLOW %v depth=%d model=%v extra=%s\n", d, len(s.stack), modelVars != nil, ex)
		}
	}()
	s.Queries++
	s.sync(pc)
	if extra != nil {
		if extra.IsFalse() {
			s.Unsat++
			return RUnsat, nil
		}
		s.pushLevel()
		s.define(extra)
		s.send(fmt.Sprintf("(assert %s)", smtName(extra)))
	}
	if modelVars != nil && extra == nil {
		s.pushLevel()
	}
	for _, v := range modelVars {
		if v.op != OpVar {
			s.define(v)
		}
	}
	s.send("(check-sat)")
	var timer *time.Timer
	if s.timeout > 0 {
		proc := s.cmd.Process
		timer = time.AfterFunc(time.Duration(s.timeout)*time.Millisecond, func() {
			s.killed = true
			proc.Kill()
		})
	}
	res := s.readResult()
	if timer != nil {
		timer.Stop()
	}
	if s.killed {
		// restart the solver process; the caller treats the result as unknown
		s.cmd.Wait()
		s.killed = false
		s.Timeouts++
		s.Unknown++
		if err := s.start(); err != nil {
			s.Errors = append(s.Errors, "solver restart failed: "+err.Error())
		}
		return RUnknown, nil
	}
	var model map[string]uint64
	if res == RSat && modelVars != nil {
		model = s.getModel(modelVars)
	}
	if extra != nil || modelVars != nil {
		s.popLevel()
	}
	switch res {
	case RSat:
		s.Sat++
	case RUnsat:
		s.Unsat++
	default:
		s.Unknown++
	}
	return res, model
}

func (s *Solver) readResult() Result {
	for {
		line := s.readLine()
		switch {
		case line == "sat":
			return RSat
		case line == "unsat":
			return RUnsat
		case line == "unknown" || line == "timeout":
			return RUnknown
		case line == "error":
			return RUnknown
		case strings.HasPrefix(line, "(error"):
			s.Errors = append(s.Errors, line)
			// keep reading: z3 prints the error and then still answers
		case line == "":
		default:
			s.Errors = append(s.Errors, "unexpected solver output: "+line)
		}
	}
}

func (s *Solver) getModel(vars []*Term) map[string]uint64 {
	model := map[string]uint64{}
	// only ask for declared vars
	var names []string
	var ask []*Term
	for _, v := range vars {
		if s.isDef[v.id] {
			names = append(names, smtName(v))
			ask = append(ask, v)
		}
	}
	if len(ask) == 0 {
		return model
	}
	s.send("(get-value (" + strings.Join(names, " ") + "))")
	// parse s-expression: ((|a| #x01) (|b| true) ...)
	var sb strings.Builder
	depth := 0
	started := false
	for {
		line := s.readLine()
		if strings.HasPrefix(line, "(error") || line == "error" {
			s.Errors = append(s.Errors, "get-value: "+line)
			return model
		}
		sb.WriteString(line)
		sb.WriteString(" ")
		inBar := false
		for _, c := range line {
			if c == '|' {
				inBar = !inBar
			}
			if inBar {
				continue
			}
			if c == '(' {
				depth++
				started = true
			} else if c == ')' {
				depth--
			}
		}
		if started && depth == 0 {
			break
		}
	}
	text := sb.String()
	for _, v := range ask {
		nm := smtName(v)
		idx := strings.Index(text, "("+nm+" ")
		if idx < 0 {
			// cvc5 prints simple symbols without the |...| quoting they were declared with
			if bare := strings.Trim(nm, "|"); bare != nm {
				nm = bare
				idx = strings.Index(text, "("+nm+" ")
			}
		}
		if idx < 0 {
			s.Errors = append(s.Errors, "get-value: no value for "+nm)
			continue
		}
		rest := text[idx+len(nm)+2:]
		end := strings.Index(rest, ")")
		if end < 0 {
			continue
		}
		tok := strings.TrimSpace(rest[:end])
		model[termKey(v)] = parseSMTValue(tok)
	}
	return model
}

func parseSMTValue(tok string) uint64 {
	switch {
	case tok == "true":
		return 1
	case tok == "false":
		return 0
	case strings.HasPrefix(tok, "#x"):
		v, _ := strconv.ParseUint(tok[2:], 16, 64)
		return v
	case strings.HasPrefix(tok, "#b"):
		v, _ := strconv.ParseUint(tok[2:], 2, 64)
		return v
	case strings.HasPrefix(tok, "(_ bv"):
		f := strings.Fields(tok[5:])
		v, _ := strconv.ParseUint(f[0], 10, 64)
		return v
	}
	return 0
}

var slowLog = func() int {
	v, _ := strconv.Atoi(os.Getenv("GOSMT_SLOW"))
	return v
}()
