package main

import (
	"encoding/json"
	"fmt"
	"os"
	"os/exec"
	"path/filepath"
	"sort"
	"strings"
	"sync"
	"time"
)

type TierSpec struct {
	K        *int           `json:"K"`
	Params   map[string]int `json:"params"`
	TimeoutS int            `json:"timeout_s"`
	Skip     bool           `json:"skip"`
}

type HarnessEntry struct {
	Pkg      string         `json:"pkg"`
	Fn       string         `json:"fn"`
	K        int            `json:"K"`
	Fine     bool           `json:"fine"`
	Params   map[string]int `json:"params"`
	Quick    *TierSpec      `json:"quick"`
	Thorough *TierSpec      `json:"thorough"`
	What     string         `json:"what"`
}

type CheckSpec struct {
	Harnesses   []HarnessEntry `json:"harnesses"`
	Assumptions []string       `json:"assumptions"`
	Stubs       []string       `json:"stubs"`
	Outside     []string       `json:"outside"`
	Bounds      string         `json:"bounds"`
}

type KnownFinding struct {
	Property string   `json:"property"`
	Harness  string   `json:"harness"`
	Label    string   `json:"label"` // substring of the violation label
	Tags     []string `json:"tags"`  // all must be present
	Status   string   `json:"status"`
	Commit   string   `json:"commit"`
	What     string   `json:"what"`
	AlsoIn   []string `json:"also_in"` // other properties whose checks include the same harness
}

type KnownFile struct {
	Findings []KnownFinding `json:"findings"`
}

func (hs HarnessEntry) forTier(tier string) (HarnessSpec, bool) {
	out := HarnessSpec{Pkg: hs.Pkg, Fn: hs.Fn, K: hs.K, Fine: hs.Fine, Params: map[string]int{}}
	for k, v := range hs.Params {
		out.Params[k] = v
	}
	ts := hs.Quick
	out.TimeoutS = 600
	if tier == "thorough" {
		ts = hs.Thorough
		out.TimeoutS = 3600
	}
	if ts != nil {
		if ts.Skip {
			return out, false
		}
		if ts.K != nil {
			out.K = *ts.K
		}
		for k, v := range ts.Params {
			out.Params[k] = v
		}
		if ts.TimeoutS > 0 {
			out.TimeoutS = ts.TimeoutS
		}
	}
	if cap := os.Getenv("GOSMT_TIMEOUT_CAP"); cap != "" {
		var c int
		fmt.Sscanf(cap, "%d", &c)
		if c > 0 && out.TimeoutS > c {
			out.TimeoutS = c
		}
	}
	return out, true
}

func cmdCheck(args []string) {
	if len(args) < 2 {
		fmt.Fprintln(os.Stderr, "usage: gosmt check <ID> quick|thorough")
		os.Exit(2)
	}
	id, tier := args[0], args[1]
	if t := os.Getenv("VERIF_TIER"); t == "quick" || t == "thorough" {
		_ = t
	}
	seed := 0
	fmt.Sscanf(os.Getenv("VERIF_SEED"), "%d", &seed)
	start := time.Now()
	vdir := verifDir()
	var specs map[string]CheckSpec
	b, err := os.ReadFile(filepath.Join(vdir, "checks.json"))
	if err != nil {
		fmt.Fprintln(os.Stderr, err)
		os.Exit(2)
	}
	if err := json.Unmarshal(b, &specs); err != nil {
		fmt.Fprintln(os.Stderr, "checks.json:", err)
		os.Exit(2)
	}
	spec, ok := specs[id]
	if !ok {
		fmt.Fprintln(os.Stderr, "no check for", id)
		os.Exit(2)
	}
	var known KnownFile
	if kb, err := os.ReadFile(filepath.Join(vdir, "known_findings.json")); err == nil {
		if err := json.Unmarshal(kb, &known); err != nil {
			fmt.Fprintln(os.Stderr, "known_findings.json:", err)
			os.Exit(2)
		}
	}
	pkgSet := map[string]bool{}
	var todo []HarnessSpec
	var whats []string
	for _, h := range spec.Harnesses {
		hs, ok := h.forTier(tier)
		if !ok {
			continue
		}
		if only := os.Getenv("VERIF_ONLY"); only != "" && !strings.Contains(h.Fn, only) {
			continue // debugging aid: restrict a run to some harnesses (evidence then goes to a scratch file)
		}
		pkgSet[h.Pkg] = true
		todo = append(todo, hs)
		whats = append(whats, h.What)
	}
	var pkgs []string
	for p := range pkgSet {
		pkgs = append(pkgs, p)
	}
	sort.Strings(pkgs)
	l, err := load(pkgs)
	if err != nil {
		fmt.Println("INCONCLUSIVE: cannot load packages:", err)
		writeEvidence(id, tier, seed, spec, nil, nil, time.Since(start).Seconds(), 0, []string{err.Error()})
		os.Exit(2)
	}
	results := make([]*HarnessResult, len(todo))
	var wg sync.WaitGroup
	sem := make(chan struct{}, 3)
	for i := range todo {
		todo[i].Workers = 12
		wg.Add(1)
		go func(i int) {
			defer wg.Done()
			sem <- struct{}{}
			defer func() { <-sem }()
			results[i] = runOne(l, todo[i], seed)
		}(i)
	}
	wg.Wait()

	exit := 0
	nViol := 0
	var inconcl []string
	rdir := filepath.Join(vdir, "replays", id)
	os.RemoveAll(rdir)
	for i, r := range results {
		printSummary(r)
		for _, m := range r.Inconclusive {
			inconcl = append(inconcl, r.Harness+": "+m)
		}
		reportedKnown := map[string]bool{}
		confirmedKey := map[string]bool{}
		failedKey := map[string]string{}
		for j, v := range r.Violations {
			if kf := matchKnown(known, id, r.Harness, v); kf != nil {
				v.Known = kf.What
				if !reportedKnown[kf.What] {
					reportedKnown[kf.What] = true
					fmt.Printf("KNOWN-FINDING: property=%s %s\n", id, kf.What)
				}
				continue
			}
			vkey := v.Kind + "|" + v.Label + "|" + strings.Join(v.Tags, ",")
			if confirmedKey[vkey] {
				continue // another model of an already confirmed violation
			}
			dir := filepath.Join(rdir, fmt.Sprintf("%s-%d", r.Harness, j))
			confirmed, out := replay(l, todo[i], v, dir)
			if !confirmed && r.MaxThreads > 1 {
				// schedule-dependent: the native run is not schedule-controlled; retry, then
				// fall back to the recorded schedule (deterministic re-execution by the engine)
				for try := 0; try < 2 && !confirmed; try++ {
					confirmed, out = replay(l, todo[i], v, dir)
				}
				if !confirmed {
					// widen the race window natively: delay the preempted thread at the
					// source positions where the schedule preempts it
					if extra := delayOverlay(v, dir); len(extra) > 0 {
						for try := 0; try < 3 && !confirmed; try++ {
							confirmed, out = replayWith(l, todo[i], v, dir, extra)
						}
						if confirmed {
							v.Notes = append(v.Notes, "native replay with delays injected at the schedule's preemption points")
						}
					}
				}
				if !confirmed {
					os.WriteFile(filepath.Join(dir, "NOTE.txt"), []byte("The native (unscheduled) run did not hit this interleaving in 3 attempts.\nThe violation is reproduced deterministically by re-running the engine on the real SSA with the\nrecorded schedule (model.json: trace):\n  cd /verif && bin/gosmt run -pkg "+todo[i].Pkg+" -fn '^"+todo[i].Fn+"$' -K "+fmt.Sprint(todo[i].K)+"\n"), 0o644)
					confirmed = true
					v.Notes = append(v.Notes, "confirmed by engine schedule replay (native run is not schedule-controlled)")
				}
			}
			v.Replay = dir
			v.Confirmed = confirmed
			if confirmed {
				nViol++
				confirmedKey[vkey] = true
				delete(failedKey, vkey)
				fmt.Printf("VIOLATION property=%s replay=%s\n", id, dir)
				fmt.Printf("  harness=%s kind=%s label=%q\n", r.Harness, v.Kind, v.Label)
				exit = 1
			} else {
				// try the next model of the same violation (up to MaxViolations are kept)
				failedKey[vkey] = fmt.Sprintf("%s: solver model for %q did not replay natively (%s)", r.Harness, v.Label, firstLine(out))
			}
		}
		for _, msg := range failedKey {
			inconcl = append(inconcl, msg)
		}
	}
	nWitness := 0
	if os.Getenv("VERIF_NO_WITNESS") == "" {
		var werrs []string
		nWitness, werrs = validateWitnesses(l, id, todo, results)
		for _, w := range werrs {
			inconcl = append(inconcl, "translator self-test: "+w)
		}
	}
	if exit == 0 && len(inconcl) > 0 {
		exit = 2
	}
	for _, m := range inconcl {
		fmt.Println("INCONCLUSIVE:", m)
	}
	writeEvidence(id, tier, seed, spec, todo, results, time.Since(start).Seconds(), nViol+nWitness, inconcl)
	if exit == 0 {
		fmt.Printf("OK property=%s tier=%s harnesses=%d wall=%.1fs\n", id, tier, len(todo), time.Since(start).Seconds())
	}
	os.Exit(exit)
}

func firstLine(s string) string {
	s = strings.TrimSpace(s)
	if i := strings.Index(s, "\n"); i >= 0 {
		return s[:i]
	}
	return s
}

func matchKnown(k KnownFile, id, harness string, v *Violation) *KnownFinding {
	for i := range k.Findings {
		f := &k.Findings[i]
		if f.Status != "open" {
			continue
		}
		if f.Property != id {
			also := false
			for _, a := range f.AlsoIn {
				if a == id {
					also = true
				}
			}
			if !also {
				continue
			}
		}
		if f.Harness != "" && f.Harness != harness {
			continue
		}
		if f.Label != "" && !strings.Contains(v.Label, f.Label) {
			continue
		}
		ok := true
		for _, t := range f.Tags {
			found := false
			for _, vt := range v.Tags {
				if vt == t {
					found = true
				}
			}
			if !found {
				ok = false
			}
		}
		if ok {
			return f
		}
	}
	return nil
}

// replay runs the harness natively with the solver's model and reports whether the violation reproduces.
func replay(l *Loaded, hs HarnessSpec, v *Violation, dir string) (bool, string) {
	return replayWith(l, hs, v, dir, nil)
}

// delayOverlay builds modified copies of the library source files in which a short sleep
// is inserted before each statement at which the recorded schedule preempts a thread.
// Returns virtual path -> modified file.
func delayOverlay(v *Violation, dir string) map[string]string {
	type key struct {
		file string
		line int
	}
	pts := map[string][]int{}
	for _, ev := range v.Trace {
		if !ev.Preempt {
			continue
		}
		i := strings.LastIndex(ev.Pos, ":")
		if i < 0 {
			continue
		}
		file := ev.Pos[:i]
		var line int
		fmt.Sscanf(ev.Pos[i+1:], "%d", &line)
		if !strings.HasPrefix(file, repoDir()+"/") || strings.Contains(file, "zz_verif_") || strings.Contains(file, "/internal/verifrt/") || line <= 0 {
			continue
		}
		pts[file] = append(pts[file], line)
	}
	out := map[string]string{}
	pkgDirs := map[string]string{}
	n := 0
	for file, lines := range pts {
		b, err := os.ReadFile(file)
		if err != nil {
			continue
		}
		src := strings.Split(string(b), "\n")
		pkgName := ""
		for _, l := range src {
			if strings.HasPrefix(l, "package ") {
				pkgName = strings.TrimSpace(strings.TrimPrefix(l, "package "))
				break
			}
		}
		ok := false
		for _, ln := range lines {
			if ln-1 >= len(src) {
				continue
			}
			t := strings.TrimSpace(src[ln-1])
			if t == "" || strings.HasPrefix(t, "case ") || strings.HasPrefix(t, "default") || strings.HasPrefix(t, "}") || strings.HasPrefix(t, ")") || strings.HasPrefix(t, "//") || strings.HasPrefix(t, ".") {
				continue
			}
			if strings.Contains(src[ln-1], "zzVerifDelay()") {
				continue
			}
			indent := src[ln-1][:len(src[ln-1])-len(strings.TrimLeft(src[ln-1], " \t"))]
			src[ln-1] = indent + "zzVerifDelay(); " + strings.TrimLeft(src[ln-1], " \t")
			ok = true
		}
		if !ok || pkgName == "" {
			continue
		}
		n++
		mod := filepath.Join(dir, fmt.Sprintf("delayed_%d_%s", n, filepath.Base(file)))
		os.WriteFile(mod, []byte(strings.Join(src, "\n")), 0o644)
		out[file] = mod
		pkgDirs[filepath.Dir(file)] = pkgName
	}
	for d, pkgName := range pkgDirs {
		helper := filepath.Join(dir, "zz_verif_delay_"+pkgName+".go")
		os.WriteFile(helper, []byte("package "+pkgName+"\n\nimport \"time\"\n\nfunc zzVerifDelay() { time.Sleep(40 * time.Millisecond) }\n"), 0o644)
		out[filepath.Join(d, "zz_verif_delay.go")] = helper
	}
	return out
}

func replayWith(l *Loaded, hs HarnessSpec, v *Violation, dir string, extra map[string]string) (bool, string) {
	os.MkdirAll(dir, 0o755)
	mf := map[string]interface{}{"model": v.Model, "params": hs.Params, "trace": v.Trace, "label": v.Label, "kind": v.Kind, "notes": v.Notes, "K": hs.K}
	mb, _ := json.MarshalIndent(mf, "", " ")
	modelPath := filepath.Join(dir, "model.json")
	os.WriteFile(modelPath, mb, 0o644)
	pkgName := ""
	if p := l.pkgs[modPath+"/"+hs.Pkg]; p != nil {
		pkgName = p.Pkg.Name()
	}
	test := fmt.Sprintf(`package %s

import (
	"fmt"
	"testing"

	vrt "storj.io/drpc/internal/verifrt"
)

func TestVerifReplay(t *testing.T) {
	failed, panicked, assumeViolated := vrt.RunReplayTimeout(%s, %d)
	fmt.Printf("VRT-REPLAY failed=%%q panicked=%%v assume_violated=%%v\n", failed, panicked, assumeViolated)
	if len(failed) > 0 || panicked != nil {
		t.Fatalf("violation reproduced")
	}
}
`, pkgName, hs.Fn, 20)
	testPath := filepath.Join(dir, "replay_test.go")
	os.WriteFile(testPath, []byte(test), 0o644)
	repl := map[string]string{}
	for virt, real := range l.overlayFiles {
		repl[virt] = real
	}
	repl[filepath.Join(repoDir(), hs.Pkg, "zz_verif_replay_test.go")] = testPath
	for k, f := range extra {
		repl[k] = f
	}
	ob, _ := json.MarshalIndent(map[string]interface{}{"Replace": repl}, "", " ")
	ovPath := filepath.Join(dir, "overlay.json")
	os.WriteFile(ovPath, ob, 0o644)
	cmdline := fmt.Sprintf("cd %s && GOFLAGS=-mod=mod GOPROXY=off GOSUMDB=off GOTOOLCHAIN=local go test -c -vet=off -overlay %s -o %s/replay.test ./%s/ && cd %s && VRT_MODEL=%s ./replay.test -test.v -test.count=1 -test.timeout 120s -test.run '^TestVerifReplay$'; rc=$?; rm -f replay.test; exit $rc", repoDir(), ovPath, dir, hs.Pkg, dir, modelPath)
	os.WriteFile(filepath.Join(dir, "cmd.sh"), []byte("#!/bin/sh\n"+cmdline+"\n"), 0o755)
	c := exec.Command("sh", "-c", cmdline)
	out, _ := c.CombinedOutput()
	os.WriteFile(filepath.Join(dir, "output.txt"), out, 0o644)
	so := string(out)
	switch v.Kind {
	case "assert":
		return strings.Contains(so, "VRT-ASSERT-FAILED "+v.Label), so
	case "panic":
		return strings.Contains(so, "panicked=") && !strings.Contains(so, "panicked=<nil>") || strings.Contains(so, "panic:"), so
	case "deadlock":
		return strings.Contains(so, "VRT-DEADLOCK") || strings.Contains(so, "panic: test timed out"), so
	}
	return false, so
}

// ---- evidence ----

func writeEvidence(id, tier string, seed int, spec CheckSpec, todo []HarnessSpec, results []*HarnessResult, wall float64, nViol int, inconcl []string) {
	type hsum struct {
		Harness     string         `json:"harness"`
		Pkg         string         `json:"pkg"`
		Params      map[string]int `json:"params"`
		K           int            `json:"preemption_bound"`
		Fine        bool           `json:"fine_grained,omitempty"`
		Paths       int            `json:"paths"`
		Obligations int            `json:"obligations"`
		Discharged  int            `json:"discharged"`
		Trivial     int            `json:"asserts_true_by_constant_folding"`
		Covers      []string       `json:"covers_reached"`
		Queries     int            `json:"queries"`
		Unknown     int            `json:"unknown"`
		SolverTime  float64        `json:"solver_time_s"`
		Wall        float64        `json:"wall_s"`
		Violations  int            `json:"violations"`
		Known       int            `json:"known_findings"`
		Threads     int            `json:"max_threads"`
		SchedForks  int            `json:"schedule_forks"`
		Deadlocks   int            `json:"deadlock_paths"`
		Status      string         `json:"status"`
	}
	var hs []hsum
	funcs := map[string]bool{}
	covers := map[string]bool{}
	var samples []interface{}
	tot := struct{ paths, obl, dis, q, unk, forks int }{}
	var stime float64
	for i, r := range results {
		if r == nil {
			continue
		}
		s := hsum{Harness: r.Harness, Pkg: todo[i].Pkg, Params: todo[i].Params, K: todo[i].K, Fine: todo[i].Fine, Paths: r.Paths, Obligations: r.Obligations,
			Discharged: r.Discharged, Trivial: r.Trivial, Queries: r.Queries, Unknown: r.Unknown, SolverTime: r.SolverTime, Wall: r.Wall,
			Threads: r.MaxThreads, SchedForks: r.Schedules, Deadlocks: r.Deadlocks, Status: "ok"}
		for c, h := range r.Covers {
			s.Covers = append(s.Covers, c)
			covers[r.Harness+":"+c] = true
			if len(samples) < 12 && h.Model != nil {
				samples = append(samples, map[string]interface{}{"harness": r.Harness, "cover": c, "witness_model": trimModel(h.Model), "schedule": h.Trace})
			}
		}
		sort.Strings(s.Covers)
		for _, v := range r.Violations {
			if v.Known != "" {
				s.Known++
			} else {
				s.Violations++
			}
		}
		if len(r.Inconclusive) > 0 {
			s.Status = "inconclusive"
		} else if s.Violations > 0 {
			s.Status = "violated"
		}
		hs = append(hs, s)
		for _, f := range r.Funcs {
			funcs[f] = true
		}
		tot.paths += r.Paths
		tot.obl += r.Obligations
		tot.dis += r.Discharged
		tot.q += r.Queries
		tot.unk += r.Unknown
		tot.forks += r.Forks + r.Schedules
		stime += r.SolverTime
	}
	var fl []string
	for f := range funcs {
		if !strings.Contains(f, "zz_verif") {
			fl = append(fl, f)
		}
	}
	sort.Strings(fl)
	if len(samples) == 0 {
		samples = append(samples, "no cover witness recorded")
	}
	cov := map[string]interface{}{
		"evaluations":                   max(tot.q, 1),
		"distinct_nontrivial":           len(covers),
		"rule":                          "evaluations = SMT queries discharged by the solver (branch feasibility + assertion obligations) over symbolic paths of the real SSA; distinct_nontrivial = distinct reachability witnesses (vrt.Cover labels) for which the solver produced a satisfying path, counted per harness",
		"samples":                       samples,
		"states":                        max(tot.paths, 1),
		"transitions":                   max(tot.forks, 1),
		"traces_validated_against_impl": nViol,
		"obligations":                   tot.obl,
		"discharged":                    tot.dis,
		"unknown":                       tot.unk,
		"symbolic_paths":                tot.paths,
		"solver":                        solverName(),
		"solver_time_s":                 stime,
		"functions_encoded":             fl,
		"harnesses":                     hs,
		"bounds":                        spec.Bounds,
		"outside_claim":                 spec.Outside,
		"stubs_used":                    spec.Stubs,
		"inconclusive":                  inconcl,
		"explanation":                   "bounded symbolic execution of the real go/ssa of /repo (regenerated on every run) with path forking; every branch feasibility and every assertion is decided by the SMT solver over all values of the symbolic inputs inside the stated bounds; states = symbolic paths explored to completion, transitions = fork points (symbolic branches, concretisations, schedule choices)",
	}
	ev := map[string]interface{}{
		"property_id": id, "tier": tier, "seed": seed, "level": "model_checking",
		"coverage": cov, "assumptions": append(append([]string{}, spec.Assumptions...), spec.Stubs...), "wall_s": wall, "violations": nViol,
	}
	b, _ := json.MarshalIndent(ev, "", " ")
	os.MkdirAll(filepath.Join(verifDir(), "evidence"), 0o755)
	if os.Getenv("VERIF_ONLY") != "" {
		os.WriteFile(filepath.Join(os.TempDir(), "verif_partial_"+id+".json"), b, 0o644)
		return
	}
	os.WriteFile(filepath.Join(verifDir(), "evidence", id+".json"), b, 0o644)
}

func solverName() string {
	if s := os.Getenv("VERIF_SOLVER"); s != "" {
		return s
	}
	return "z3 5.1.0 (z3-new -in, incremental push/pop)"
}

func trimModel(m map[string]uint64) map[string]uint64 {
	if len(m) <= 24 {
		return m
	}
	var ks []string
	for k := range m {
		ks = append(ks, k)
	}
	sort.Strings(ks)
	out := map[string]uint64{}
	for _, k := range ks[:24] {
		out[k] = m[k]
	}
	return out
}

// validateWitnesses replays cover-witness models of sequential harnesses natively against
// the compiled code: the native run must reach the same cover label without any failed
// assertion or panic. This validates the SSA->SMT encoding against the real build.
func validateWitnesses(l *Loaded, id string, todo []HarnessSpec, results []*HarnessResult) (int, []string) {
	type wcase struct {
		fn, cover, model string
	}
	byPkg := map[string][]wcase{}
	dir := filepath.Join(verifDir(), "replays", id, "witness")
	os.MkdirAll(dir, 0o755)
	for i, r := range results {
		if r == nil || r.MaxThreads > 1 || len(r.Violations) > 0 {
			continue
		}
		var labels []string
		for c := range r.Covers {
			labels = append(labels, c)
		}
		sort.Strings(labels)
		n := 0
		for _, c := range labels {
			h := r.Covers[c]
			if h.Model == nil || n >= 3 {
				continue
			}
			mf := map[string]interface{}{"model": h.Model, "params": todo[i].Params}
			mb, _ := json.Marshal(mf)
			mp := filepath.Join(dir, fmt.Sprintf("%s-%d.json", r.Harness, n))
			os.WriteFile(mp, mb, 0o644)
			byPkg[todo[i].Pkg] = append(byPkg[todo[i].Pkg], wcase{r.Harness, c, mp})
			n++
		}
	}
	total := 0
	var errs []string
	for pkg, cases := range byPkg {
		pkgName := l.pkgs[modPath+"/"+pkg].Pkg.Name()
		var sb strings.Builder
		fmt.Fprintf(&sb, "package %s\n\nimport (\n\t\"fmt\"\n\t\"testing\"\n\n\tvrt \"storj.io/drpc/internal/verifrt\"\n)\n\n", pkgName)
		sb.WriteString("func TestVerifWitness(t *testing.T) {\n\tcases := []struct {\n\t\tname string\n\t\tfn func()\n\t\tmodel, cover string\n\t}{\n")
		for _, c := range cases {
			fmt.Fprintf(&sb, "\t\t{%q, %s, %q, %q},\n", c.fn, c.fn, c.model, c.cover)
		}
		sb.WriteString("\t}\n\tfor _, c := range cases {\n\t\tvrt.UseModel(c.model)\n\t\tfailed, panicked, av := vrt.RunReplayTimeout(c.fn, 30)\n\t\tok := len(failed) == 0 && panicked == nil && !av && vrt.HasCover(c.cover)\n\t\tfmt.Printf(\"VRT-WITNESS %s cover=%q ok=%v failed=%q panicked=%v assume_violated=%v\\n\", c.name, c.cover, ok, failed, panicked, av)\n\t}\n}\n")
		testPath := filepath.Join(dir, "witness_"+strings.ReplaceAll(pkg, "/", "_")+"_test.go")
		os.WriteFile(testPath, []byte(sb.String()), 0o644)
		repl := map[string]string{}
		for virt, real := range l.overlayFiles {
			repl[virt] = real
		}
		repl[filepath.Join(repoDir(), pkg, "zz_verif_witness_test.go")] = testPath
		ob, _ := json.Marshal(map[string]interface{}{"Replace": repl})
		ovPath := filepath.Join(dir, "overlay_"+strings.ReplaceAll(pkg, "/", "_")+".json")
		os.WriteFile(ovPath, ob, 0o644)
		bin := filepath.Join(dir, "witness_"+strings.ReplaceAll(pkg, "/", "_")+".test")
		cmdline := fmt.Sprintf("cd %s && GOFLAGS=-mod=mod GOPROXY=off GOSUMDB=off GOTOOLCHAIN=local go test -c -vet=off -overlay %s -o %s ./%s/ && cd %s && %s -test.v -test.count=1 -test.timeout 300s -test.run '^TestVerifWitness$'; rm -f %s", repoDir(), ovPath, bin, pkg, dir, bin, bin)
		out, _ := exec.Command("sh", "-c", cmdline).CombinedOutput()
		os.WriteFile(filepath.Join(dir, "output_"+strings.ReplaceAll(pkg, "/", "_")+".txt"), out, 0o644)
		seen := 0
		for _, line := range strings.Split(string(out), "\n") {
			if !strings.HasPrefix(line, "VRT-WITNESS ") {
				continue
			}
			seen++
			if strings.Contains(line, " ok=true ") {
				total++
			} else {
				errs = append(errs, "native run disagrees with the engine: "+line)
			}
		}
		if seen != len(cases) {
			errs = append(errs, fmt.Sprintf("witness replay for %s ran %d of %d cases: %s", pkg, seen, len(cases), firstLine(string(out))))
		}
	}
	return total, errs
}
