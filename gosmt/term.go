package main

// SMT term DAG with hash-consing and constant folding. Widths 1..64 are
// bit-vectors, width 0 is Bool.

import (
	"fmt"
	"math/bits"
	"sort"
	"strings"
	"sync"
)

type Op int

const (
	OpConst Op = iota
	OpVar
	OpAdd
	OpSub
	OpMul
	OpUDiv
	OpURem
	OpSDiv
	OpSRem
	OpAnd
	OpOr
	OpXor
	OpShl
	OpLShr
	OpAShr
	OpNot // bvnot or bool not
	OpNeg
	OpEq
	OpUlt
	OpUle
	OpSlt
	OpSle
	OpIte
	OpExtract // lo, hi in val: hi<<8|lo
	OpZExt    // to width w
	OpSExt
	OpConcat
	OpBAnd // bool and
	OpBOr
)

var opNames = map[Op]string{
	OpAdd: "bvadd", OpSub: "bvsub", OpMul: "bvmul", OpUDiv: "bvudiv", OpURem: "bvurem",
	OpSDiv: "bvsdiv", OpSRem: "bvsrem", OpAnd: "bvand", OpOr: "bvor", OpXor: "bvxor",
	OpShl: "bvshl", OpLShr: "bvlshr", OpAShr: "bvashr", OpNeg: "bvneg",
	OpEq: "=", OpUlt: "bvult", OpUle: "bvule", OpSlt: "bvslt", OpSle: "bvsle",
	OpIte: "ite", OpConcat: "concat", OpBAnd: "and", OpBOr: "or",
}

type Term struct {
	id   int
	op   Op
	w    int // 0 = Bool
	args []*Term
	val  uint64 // const value / extract params
	name string // var name
}

type TermStore struct {
	mu    sync.Mutex
	tab   map[string]*Term
	all   []*Term
	vars  []*Term
	True  *Term
	False *Term
}

func NewTermStore() *TermStore {
	ts := &TermStore{tab: map[string]*Term{}}
	ts.True = ts.mk(OpConst, 0, 1, "")
	ts.False = ts.mk(OpConst, 0, 0, "")
	return ts
}

func (ts *TermStore) mk(op Op, w int, val uint64, name string, args ...*Term) *Term {
	var sb strings.Builder
	fmt.Fprintf(&sb, "%d:%d:%d:%s", op, w, val, name)
	for _, a := range args {
		fmt.Fprintf(&sb, ":%d", a.id)
	}
	k := sb.String()
	ts.mu.Lock()
	defer ts.mu.Unlock()
	if t, ok := ts.tab[k]; ok {
		return t
	}
	t := &Term{id: len(ts.all), op: op, w: w, args: args, val: val, name: name}
	ts.all = append(ts.all, t)
	ts.tab[k] = t
	if op == OpVar {
		ts.vars = append(ts.vars, t)
	}
	return t
}

func mask(w int) uint64 {
	if w >= 64 {
		return ^uint64(0)
	}
	return (uint64(1) << uint(w)) - 1
}

func (ts *TermStore) BV(w int, v uint64) *Term {
	if w == 0 {
		panic("BV width 0")
	}
	return ts.mk(OpConst, w, v&mask(w), "")
}

func (ts *TermStore) Bool(b bool) *Term {
	if b {
		return ts.True
	}
	return ts.False
}

func (ts *TermStore) Var(name string, w int) *Term { return ts.mk(OpVar, w, 0, name) }

func (t *Term) IsConst() bool { return t.op == OpConst }
func (t *Term) IsTrue() bool  { return t.op == OpConst && t.w == 0 && t.val == 1 }
func (t *Term) IsFalse() bool { return t.op == OpConst && t.w == 0 && t.val == 0 }

func sext(v uint64, w int) int64 {
	if w >= 64 {
		return int64(v)
	}
	sh := uint(64 - w)
	return int64(v<<sh) >> sh
}

func (ts *TermStore) Bin(op Op, a, b *Term) *Term {
	if a.w != b.w {
		panic(fmt.Sprintf("width mismatch %v: %d vs %d", opNames[op], a.w, b.w))
	}
	w := a.w
	if a.IsConst() && b.IsConst() {
		x, y := a.val, b.val
		var r uint64
		switch op {
		case OpAdd:
			r = x + y
		case OpSub:
			r = x - y
		case OpMul:
			r = x * y
		case OpUDiv:
			if y == 0 {
				r = mask(w)
			} else {
				r = x / y
			}
		case OpURem:
			if y == 0 {
				r = x
			} else {
				r = x % y
			}
		case OpSDiv:
			sx, sy := sext(x, w), sext(y, w)
			if sy == 0 {
				if sx < 0 {
					r = 1
				} else {
					r = mask(w)
				}
			} else if sy == -1 {
				r = uint64(-sx)
			} else {
				r = uint64(sx / sy)
			}
		case OpSRem:
			sx, sy := sext(x, w), sext(y, w)
			if sy == 0 {
				r = x
			} else if sy == -1 {
				r = 0
			} else {
				r = uint64(sx % sy)
			}
		case OpAnd:
			r = x & y
		case OpOr:
			r = x | y
		case OpXor:
			r = x ^ y
		case OpShl:
			if y >= uint64(w) {
				r = 0
			} else {
				r = x << y
			}
		case OpLShr:
			if y >= uint64(w) {
				r = 0
			} else {
				r = x >> y
			}
		case OpAShr:
			sx := sext(x, w)
			if y >= uint64(w) {
				if sx < 0 {
					r = mask(w)
				} else {
					r = 0
				}
			} else {
				r = uint64(sx >> y)
			}
		default:
			panic("bad binop")
		}
		return ts.BV(w, r)
	}
	// identities
	switch op {
	case OpAdd:
		if a.IsConst() && a.val == 0 {
			return b
		}
		if b.IsConst() && b.val == 0 {
			return a
		}
		// (x + c1) + c2
		if b.IsConst() && a.op == OpAdd && a.args[1].IsConst() {
			return ts.Bin(OpAdd, a.args[0], ts.BV(w, a.args[1].val+b.val))
		}
		if a.IsConst() {
			a, b = b, a
		}
	case OpSub:
		if b.IsConst() && b.val == 0 {
			return a
		}
		if a == b {
			return ts.BV(w, 0)
		}
		if b.IsConst() {
			return ts.Bin(OpAdd, a, ts.BV(w, -b.val))
		}
		// (x + c) - x = c
		if a.op == OpAdd && a.args[0] == b {
			return a.args[1]
		}
		// (x + c1) - (x + c2)
		if a.op == OpAdd && b.op == OpAdd && a.args[0] == b.args[0] {
			return ts.Bin(OpSub, a.args[1], b.args[1])
		}
	case OpMul:
		if a.IsConst() {
			a, b = b, a
		}
		if b.IsConst() && b.val == 0 {
			return b
		}
		if b.IsConst() && b.val == 1 {
			return a
		}
	case OpAnd:
		if a.IsConst() {
			a, b = b, a
		}
		if b.IsConst() && b.val == 0 {
			return b
		}
		if b.IsConst() && b.val == mask(w) {
			return a
		}
		if a == b {
			return a
		}
	case OpOr:
		if a.IsConst() {
			a, b = b, a
		}
		if b.IsConst() && b.val == 0 {
			return a
		}
		if b.IsConst() && b.val == mask(w) {
			return b
		}
		if a == b {
			return a
		}
	case OpXor:
		if a.IsConst() {
			a, b = b, a
		}
		if b.IsConst() && b.val == 0 {
			return a
		}
		if a == b {
			return ts.BV(w, 0)
		}
	case OpShl, OpLShr:
		if b.IsConst() && b.val == 0 {
			return a
		}
		if b.IsConst() && b.val >= uint64(w) {
			return ts.BV(w, 0)
		}
		if a.IsConst() && a.val == 0 {
			return a
		}
	case OpAShr:
		if b.IsConst() && b.val == 0 {
			return a
		}
	}
	return ts.mk(op, w, 0, "", a, b)
}

func (ts *TermStore) Not(a *Term) *Term {
	if a.IsConst() {
		if a.w == 0 {
			return ts.Bool(a.val == 0)
		}
		return ts.BV(a.w, ^a.val)
	}
	if a.op == OpNot {
		return a.args[0]
	}
	return ts.mk(OpNot, a.w, 0, "", a)
}

func (ts *TermStore) Neg(a *Term) *Term {
	if a.IsConst() {
		return ts.BV(a.w, -a.val)
	}
	return ts.mk(OpNeg, a.w, 0, "", a)
}

func (ts *TermStore) Cmp(op Op, a, b *Term) *Term {
	if a.w != b.w {
		panic(fmt.Sprintf("cmp width mismatch %d vs %d", a.w, b.w))
	}
	if a.IsConst() && b.IsConst() {
		var r bool
		switch op {
		case OpEq:
			r = a.val == b.val
		case OpUlt:
			r = a.val < b.val
		case OpUle:
			r = a.val <= b.val
		case OpSlt:
			r = sext(a.val, a.w) < sext(b.val, b.w)
		case OpSle:
			r = sext(a.val, a.w) <= sext(b.val, b.w)
		}
		return ts.Bool(r)
	}
	if a == b {
		switch op {
		case OpEq, OpUle, OpSle:
			return ts.True
		default:
			return ts.False
		}
	}
	if op == OpEq {
		if a.w == 0 {
			// bool equality
			if a.IsConst() {
				a, b = b, a
			}
			if b.IsTrue() {
				return a
			}
			if b.IsFalse() {
				return ts.Not(a)
			}
		}
		// push equality with constant into ite trees with constant leaves
		if b.IsConst() && a.op == OpIte {
			return ts.eqIteConst(a, b, 0)
		}
		if a.IsConst() && b.op == OpIte {
			return ts.eqIteConst(b, a, 0)
		}
		// x + c1 == c2  =>  x == c2-c1
		if b.IsConst() && a.op == OpAdd && a.args[1].IsConst() {
			return ts.Cmp(OpEq, a.args[0], ts.BV(a.w, b.val-a.args[1].val))
		}
		if a.id > b.id {
			a, b = b, a
		}
		// zext(x) == const
		if b.IsConst() && a.op == OpZExt {
			iw := a.args[0].w
			if b.val&^mask(iw) != 0 {
				return ts.False
			}
			return ts.Cmp(OpEq, a.args[0], ts.BV(iw, b.val))
		}
		if a.IsConst() && b.op == OpZExt {
			iw := b.args[0].w
			if a.val&^mask(iw) != 0 {
				return ts.False
			}
			return ts.Cmp(OpEq, b.args[0], ts.BV(iw, a.val))
		}
	}
	if op == OpUlt {
		if b.IsConst() && b.val == 0 {
			return ts.False
		}
		if a.IsConst() && a.val == mask(a.w) {
			return ts.False
		}
		// zext(x) < const where const > max(x)
		if b.IsConst() && a.op == OpZExt && b.val > mask(a.args[0].w) {
			return ts.True
		}
	}
	if op == OpUle {
		if a.IsConst() && a.val == 0 {
			return ts.True
		}
		if b.IsConst() && b.val == mask(b.w) {
			return ts.True
		}
		if b.IsConst() && a.op == OpZExt && b.val >= mask(a.args[0].w) {
			return ts.True
		}
	}
	return ts.mk(op, 0, 0, "", a, b)
}

func (ts *TermStore) eqIteConst(it, c *Term, depth int) *Term {
	if depth > 64 || it.op != OpIte {
		if it.IsConst() {
			return ts.Bool(it.val == c.val)
		}
		return ts.mk(OpEq, 0, 0, "", ordered(it, c)...)
	}
	x := it.args[1]
	y := it.args[2]
	if (x.IsConst() || x.op == OpIte) && (y.IsConst() || y.op == OpIte) {
		return ts.Ite(it.args[0], ts.eqIteConst(x, c, depth+1), ts.eqIteConst(y, c, depth+1))
	}
	return ts.mk(OpEq, 0, 0, "", ordered(it, c)...)
}

func ordered(a, b *Term) []*Term {
	if a.id > b.id {
		return []*Term{b, a}
	}
	return []*Term{a, b}
}

func (ts *TermStore) Eq(a, b *Term) *Term  { return ts.Cmp(OpEq, a, b) }
func (ts *TermStore) Ne(a, b *Term) *Term  { return ts.Not(ts.Cmp(OpEq, a, b)) }
func (ts *TermStore) Ult(a, b *Term) *Term { return ts.Cmp(OpUlt, a, b) }
func (ts *TermStore) Ule(a, b *Term) *Term { return ts.Cmp(OpUle, a, b) }
func (ts *TermStore) Slt(a, b *Term) *Term { return ts.Cmp(OpSlt, a, b) }
func (ts *TermStore) Sle(a, b *Term) *Term { return ts.Cmp(OpSle, a, b) }

func (ts *TermStore) And(a, b *Term) *Term {
	if a.IsFalse() || b.IsFalse() {
		return ts.False
	}
	if a.IsTrue() {
		return b
	}
	if b.IsTrue() {
		return a
	}
	if a == b {
		return a
	}
	if ts.Not(a) == b {
		return ts.False
	}
	if a.id > b.id {
		a, b = b, a
	}
	return ts.mk(OpBAnd, 0, 0, "", a, b)
}

func (ts *TermStore) Or(a, b *Term) *Term {
	if a.IsTrue() || b.IsTrue() {
		return ts.True
	}
	if a.IsFalse() {
		return b
	}
	if b.IsFalse() {
		return a
	}
	if a == b {
		return a
	}
	if ts.Not(a) == b {
		return ts.True
	}
	if a.id > b.id {
		a, b = b, a
	}
	return ts.mk(OpBOr, 0, 0, "", a, b)
}

func (ts *TermStore) Implies(a, b *Term) *Term { return ts.Or(ts.Not(a), b) }

func (ts *TermStore) Ite(c, a, b *Term) *Term {
	if c.IsTrue() {
		return a
	}
	if c.IsFalse() {
		return b
	}
	if a == b {
		return a
	}
	if a.w != b.w {
		panic("ite width mismatch")
	}
	if a.w == 0 {
		if a.IsTrue() && b.IsFalse() {
			return c
		}
		if a.IsFalse() && b.IsTrue() {
			return ts.Not(c)
		}
		if a.IsTrue() {
			return ts.Or(c, b)
		}
		if a.IsFalse() {
			return ts.And(ts.Not(c), b)
		}
		if b.IsTrue() {
			return ts.Or(ts.Not(c), a)
		}
		if b.IsFalse() {
			return ts.And(c, a)
		}
	}
	return ts.mk(OpIte, a.w, 0, "", c, a, b)
}

func (ts *TermStore) Extract(a *Term, hi, lo int) *Term {
	w := hi - lo + 1
	if lo == 0 && w == a.w {
		return a
	}
	if a.IsConst() {
		return ts.BV(w, a.val>>uint(lo))
	}
	if a.op == OpZExt || a.op == OpSExt {
		iw := a.args[0].w
		if hi < iw {
			return ts.Extract(a.args[0], hi, lo)
		}
		if a.op == OpZExt && lo >= iw {
			return ts.BV(w, 0)
		}
	}
	if a.op == OpExtract {
		ilo := int(a.val & 0xff)
		return ts.Extract(a.args[0], hi+ilo, lo+ilo)
	}
	return ts.mk(OpExtract, w, uint64(hi)<<8|uint64(lo), "", a)
}

func (ts *TermStore) ZExt(a *Term, w int) *Term {
	if w == a.w {
		return a
	}
	if w < a.w {
		return ts.Extract(a, w-1, 0)
	}
	if a.IsConst() {
		return ts.BV(w, a.val)
	}
	if a.op == OpZExt {
		return ts.ZExt(a.args[0], w)
	}
	return ts.mk(OpZExt, w, 0, "", a)
}

func (ts *TermStore) SExt(a *Term, w int) *Term {
	if w == a.w {
		return a
	}
	if w < a.w {
		return ts.Extract(a, w-1, 0)
	}
	if a.IsConst() {
		return ts.BV(w, uint64(sext(a.val, a.w)))
	}
	return ts.mk(OpSExt, w, 0, "", a)
}

func (ts *TermStore) Concat(hi, lo *Term) *Term {
	if hi.IsConst() && lo.IsConst() {
		return ts.BV(hi.w+lo.w, hi.val<<uint(lo.w)|lo.val)
	}
	if hi.IsConst() && hi.val == 0 {
		return ts.ZExt(lo, hi.w+lo.w)
	}
	return ts.mk(OpConcat, hi.w+lo.w, 0, "", hi, lo)
}

// ---- printing ----

func sortStr(w int) string {
	if w == 0 {
		return "Bool"
	}
	return fmt.Sprintf("(_ BitVec %d)", w)
}

func constStr(t *Term) string {
	if t.w == 0 {
		if t.val == 1 {
			return "true"
		}
		return "false"
	}
	if t.w%4 == 0 {
		return fmt.Sprintf("#x%0*x", t.w/4, t.val)
	}
	return fmt.Sprintf("#b%0*b", t.w, t.val)
}

func smtName(t *Term) string {
	if t.op == OpConst {
		return constStr(t)
	}
	if t.op == OpVar {
		return "|" + t.name + "|"
	}
	return fmt.Sprintf("t%d", t.id)
}

func (t *Term) body() string {
	var sb strings.Builder
	switch t.op {
	case OpNot:
		if t.w == 0 {
			sb.WriteString("(not ")
		} else {
			sb.WriteString("(bvnot ")
		}
		sb.WriteString(smtName(t.args[0]))
		sb.WriteString(")")
	case OpExtract:
		fmt.Fprintf(&sb, "((_ extract %d %d) %s)", t.val>>8, t.val&0xff, smtName(t.args[0]))
	case OpZExt:
		fmt.Fprintf(&sb, "((_ zero_extend %d) %s)", t.w-t.args[0].w, smtName(t.args[0]))
	case OpSExt:
		fmt.Fprintf(&sb, "((_ sign_extend %d) %s)", t.w-t.args[0].w, smtName(t.args[0]))
	default:
		sb.WriteString("(")
		sb.WriteString(opNames[t.op])
		for _, a := range t.args {
			sb.WriteString(" ")
			sb.WriteString(smtName(a))
		}
		sb.WriteString(")")
	}
	return sb.String()
}

// String renders a term as a nested expression (for debugging/samples).
func (t *Term) String() string {
	return t.strDepth(6)
}

func (t *Term) strDepth(d int) string {
	if t.op == OpConst {
		if t.w == 0 {
			return constStr(t)
		}
		return fmt.Sprintf("%d", t.val)
	}
	if t.op == OpVar {
		return t.name
	}
	if d == 0 {
		return "..."
	}
	var parts []string
	for _, a := range t.args {
		parts = append(parts, a.strDepth(d-1))
	}
	name := opNames[t.op]
	switch t.op {
	case OpNot:
		name = "not"
	case OpExtract:
		name = fmt.Sprintf("extract[%d:%d]", t.val>>8, t.val&0xff)
	case OpZExt:
		name = fmt.Sprintf("zext%d", t.w)
	case OpSExt:
		name = fmt.Sprintf("sext%d", t.w)
	}
	return "(" + name + " " + strings.Join(parts, " ") + ")"
}

// Eval evaluates a term under a model (var name -> value). Missing vars are 0.
func (ts *TermStore) Eval(t *Term, model map[string]uint64, memo map[int]uint64) uint64 {
	if t.op == OpConst {
		return t.val
	}
	if v, ok := memo[t.id]; ok {
		return v
	}
	var r uint64
	switch t.op {
	case OpVar:
		r = model[t.name] & maskOrBool(t.w)
	case OpIte:
		if ts.Eval(t.args[0], model, memo) != 0 {
			r = ts.Eval(t.args[1], model, memo)
		} else {
			r = ts.Eval(t.args[2], model, memo)
		}
	default:
		cs := make([]*Term, len(t.args))
		for i, a := range t.args {
			v := ts.Eval(a, model, memo)
			if a.w == 0 {
				cs[i] = ts.Bool(v != 0)
			} else {
				cs[i] = ts.BV(a.w, v)
			}
		}
		var c *Term
		switch t.op {
		case OpNot:
			c = ts.Not(cs[0])
		case OpNeg:
			c = ts.Neg(cs[0])
		case OpEq, OpUlt, OpUle, OpSlt, OpSle:
			c = ts.Cmp(t.op, cs[0], cs[1])
		case OpBAnd:
			c = ts.And(cs[0], cs[1])
		case OpBOr:
			c = ts.Or(cs[0], cs[1])
		case OpExtract:
			c = ts.Extract(cs[0], int(t.val>>8), int(t.val&0xff))
		case OpZExt:
			c = ts.ZExt(cs[0], t.w)
		case OpSExt:
			c = ts.SExt(cs[0], t.w)
		case OpConcat:
			c = ts.Concat(cs[0], cs[1])
		default:
			c = ts.Bin(t.op, cs[0], cs[1])
		}
		if !c.IsConst() {
			panic("eval did not fold: " + t.String())
		}
		r = c.val
	}
	memo[t.id] = r
	return r
}

func maskOrBool(w int) uint64 {
	if w == 0 {
		return 1
	}
	return mask(w)
}

// collectVars returns the variables a term depends on.
func collectVars(t *Term, seen map[int]bool, out *[]*Term) {
	if seen[t.id] {
		return
	}
	seen[t.id] = true
	if t.op == OpVar {
		*out = append(*out, t)
	}
	for _, a := range t.args {
		collectVars(a, seen, out)
	}
}

func sortTermsByName(v []*Term) {
	sort.Slice(v, func(i, j int) bool { return v[i].name < v[j].name })
}

func log2ceil(n int) int { return bits.Len(uint(n)) }
