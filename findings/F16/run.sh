#!/bin/bash
# usage: run.sh [repo-dir]   (default /repo). Exit 1 = defect demonstrated.
set -u
export GOFLAGS=-mod=mod GOPROXY=off GOSUMDB=off GOTOOLCHAIN=local
REPO=${1:-/repo}
HERE=$(cd "$(dirname "$0")" && pwd)
W=$(mktemp -d)
trap 'rm -rf "$W"' EXIT
cp "$HERE/demo_test.go.txt" "$W/zz_f16_test.go"
cat > "$W/overlay.json" <<J
{"Replace":{"$REPO/drpcconn/zz_f16_test.go":"$W/zz_f16_test.go"}}
J
cd "$REPO" && go test -vet=off -count=1 -overlay "$W/overlay.json" -run TestF16 -v ./drpcconn/
