#!/bin/bash
# usage: run.sh [repo-dir]   (default /repo). Exit 1 = defect demonstrated.
set -u
export GOFLAGS=-mod=mod GOPROXY=off GOSUMDB=off GOTOOLCHAIN=local
REPO=${1:-/repo}
HERE=$(cd "$(dirname "$0")" && pwd)
W=$(mktemp -d)
trap 'rm -rf "$W"' EXIT
# widen the window: sleep right after the hand-over to manageStreams (before/after fix the
# statement order differs, the sleep goes directly after the `case m.streams <- ...:` line)
python3 - "$REPO/drpcmanager/manager.go" "$W/manager.go" <<'PY'
import sys,re
s=open(sys.argv[1]).read()
s=s.replace('	case m.streams <- streamInfo{ctx: ctx, stream: stream}:\n','	case m.streams <- streamInfo{ctx: ctx, stream: stream}:\n\t\ttime.Sleep(100 * time.Millisecond)\n',1)
if '"time"' not in s:
    s=s.replace('import (','import (\n\t"time"',1)
open(sys.argv[2],'w').write(s)
PY
cp "$HERE/demo_test.go.txt" "$W/zz_f13_test.go"
cat > "$W/overlay.json" <<J
{"Replace":{"$REPO/drpcmanager/manager.go":"$W/manager.go","$REPO/drpcmanager/zz_f13_test.go":"$W/zz_f13_test.go"}}
J
cd "$REPO" && go test -vet=off -count=1 -overlay "$W/overlay.json" -run TestF13 -v ./drpcmanager/
