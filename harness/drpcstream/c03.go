package drpcstream

import (
	"context"

	"storj.io/drpc/drpcwire"
	vrt "storj.io/drpc/internal/verifrt"
)

const (
	opMsgSend = iota
	opRawFlush
	opMsgRecv
	opCloseSend
	opClose
	opSendError
	opCancelCanceled
	opCancelDeadline
	opSendCancel
	opHPInvoke
	opHPError
	opHPCancel
	opHPClose
	opHPCloseSend
	opHPUnknownControl
	opHPUnknown
	opHPForeign
	opHPMessage
	opRawWrite
	numOps
)

type appErr struct {
	msg  string
	code uint64
}

func (e *appErr) Error() string { return e.msg }
func (e *appErr) Code() uint64  { return e.code }

// stepBoth performs one symbolic operation on the real stream and on the reference and
// compares result, signals and (at the end) emitted packets.
func stepBoth(s *Stream, r *refStream, tr *recTransport, sid uint64, step int) {
	op := vrt.Int("op")
	vrt.Assume(op >= 0 && op < numOps)
	switch op {
	case opMsgSend:
		data := vrt.BytesN("msg", 2)
		err := s.MsgSend(&data, byteEnc{})
		want := cNil
		if r.send != 0 {
			want = r.send
		} else {
			r.emit(drpcwire.KindMessage, false, data)
		}
		vrt.Assert(classify(err) == want, "MsgSend result equals reference")
		if want == cRemoteError {
			vrt.Assert(codeOf(err) == r.remoteCode, "send after remote error reports... (terminate error carries code)")
		}
		vrt.Cover("op-msgsend")
	case opRawWrite:
		data := vrt.BytesN("raw", 2)
		err := s.RawWrite(drpcwire.KindMessage, data)
		want := cNil
		if r.send != 0 {
			want = r.send
		}
		vrt.Assert(classify(err) == want, "RawWrite result equals reference")
		if want == cNil {
			// buffered, not flushed: make it visible so that the log comparison sees it
			vrt.Assert(s.RawFlush() == nil, "RawFlush after RawWrite succeeds")
			r.emit(drpcwire.KindMessage, false, data)
		}
	case opRawFlush:
		err := s.RawFlush()
		vrt.Assert(classify(err) == cNil, "RawFlush with nothing buffered is a no-op")
	case opMsgRecv:
		// only issued where the reference says a receive does not block
		vrt.Assume(r.pbuf != 0)
		var out []byte
		err := s.MsgRecv(&out, byteEnc{})
		vrt.Assert(classify(err) == r.pbuf, "MsgRecv result equals reference")
		if r.pbuf == cRemoteError {
			vrt.Assert(codeOf(err) == r.remoteCode, "receive after remote error carries its code")
			vrt.Assert(err.Error() == string(r.remoteMsg), "receive after remote error carries its message")
		}
		vrt.Cover("op-msgrecv")
	case opCloseSend:
		err := s.CloseSend()
		vrt.Assert(classify(err) == cNil, "CloseSend returns nil")
		if r.send == 0 && r.term == 0 {
			r.send = cSendClosed
			if r.recv != 0 {
				r.terminate(cTermBothClosed)
			}
			r.emit(drpcwire.KindCloseSend, false, nil)
			vrt.Cover("op-closesend-emits")
		}
	case opClose:
		err := s.Close()
		vrt.Assert(classify(err) == cNil, "Close returns nil")
		if r.term == 0 {
			r.terminate(cTermClosed)
			r.emit(drpcwire.KindClose, false, nil)
			vrt.Cover("op-close-emits")
		}
	case opSendError:
		ae := &appErr{msg: vrt.Str("emsg", 2), code: vrt.U64("ecode")}
		err := s.SendError(ae)
		vrt.Assert(classify(err) == cNil, "SendError returns nil")
		if r.term == 0 {
			setOnce(&r.send, cEOF)
			r.terminate(cTermError)
			payload := make([]byte, 8)
			for i := 0; i < 8; i++ {
				payload[i] = byte(ae.code >> (56 - 8*uint(i)))
			}
			payload = append(payload, ae.msg...)
			r.emit(drpcwire.KindError, false, payload)
			vrt.Cover("op-senderror-emits")
		}
	case opCancelCanceled, opCancelDeadline:
		var cerr error = context.Canceled
		cc := cCanceled
		if op == opCancelDeadline {
			cerr, cc = context.DeadlineExceeded, cDeadline
		}
		fin := s.Cancel(cerr)
		vrt.Assert(fin == r.finished(), "Cancel reports whether the stream was already finished")
		if !r.finished() {
			setOnce(&r.cancel, cc)
			setOnce(&r.send, cEOF)
			r.terminate(cc)
		}
	case opSendCancel:
		busy, err := s.SendCancel(context.Canceled)
		vrt.Assert(!busy, "SendCancel is not busy when nothing is in flight")
		want := cNil
		if r.term == 0 {
			setOnce(&r.send, cEOF)
			r.terminate(cCanceled)
			r.emit(drpcwire.KindCancel, true, nil)
			vrt.Cover("op-sendcancel-emits")
		}
		vrt.Assert(classify(err) == want, "SendCancel returns nil")
	case opHPInvoke:
		err := s.HandlePacket(drpcwire.Packet{ID: drpcwire.ID{Stream: sid, Message: 1}, Kind: drpcwire.KindInvoke})
		if r.term == 0 {
			vrt.Assert(classify(err) == cProtocol, "Invoke on an existing stream is a protocol error")
			r.terminate(cProtocol)
		} else {
			vrt.Assert(err == nil, "packets after termination are ignored")
		}
	case opHPError:
		code := vrt.U64("rcode")
		msg := vrt.BytesN("rmsg", 1)
		payload := make([]byte, 8)
		for i := 0; i < 8; i++ {
			payload[i] = byte(code >> (56 - 8*uint(i)))
		}
		payload = append(payload, msg...)
		err := s.HandlePacket(drpcwire.Packet{ID: drpcwire.ID{Stream: sid, Message: 1}, Kind: drpcwire.KindError, Data: payload})
		vrt.Assert(err == nil, "remote error does not fail the transport")
		if r.term == 0 {
			setOnce(&r.send, cEOF)
			cls := cRemoteError
			if code == 0 {
				cls = cOther // an error without code
			}
			if r.term == 0 && r.pbuf == 0 {
				r.remoteCode, r.remoteMsg = code, msg
			}
			r.terminate(cls)
			vrt.Cover("op-hp-error")
		}
	case opHPCancel:
		err := s.HandlePacket(drpcwire.Packet{ID: drpcwire.ID{Stream: sid, Message: 1}, Kind: drpcwire.KindCancel, Control: true})
		vrt.Assert(err == nil, "remote cancel does not fail the transport")
		if r.term == 0 {
			setOnce(&r.cancel, cCanceled)
			setOnce(&r.send, cEOF)
			r.terminate(cCanceled)
		}
	case opHPClose:
		err := s.HandlePacket(drpcwire.Packet{ID: drpcwire.ID{Stream: sid, Message: 1}, Kind: drpcwire.KindClose})
		vrt.Assert(err == nil, "remote close does not fail the transport")
		if r.term == 0 {
			setOnce(&r.recv, cEOF)
			setOnce(&r.pbuf, cEOF)
			r.terminate(cRemoteClosed)
		}
	case opHPCloseSend:
		err := s.HandlePacket(drpcwire.Packet{ID: drpcwire.ID{Stream: sid, Message: 1}, Kind: drpcwire.KindCloseSend})
		vrt.Assert(err == nil, "remote half-close does not fail the transport")
		if r.term == 0 {
			setOnce(&r.recv, cEOF)
			setOnce(&r.pbuf, cEOF)
			if r.send != 0 {
				r.terminate(cTermBothClosed)
			}
			vrt.Cover("op-hp-closesend")
		}
	case opHPUnknownControl:
		k := vrt.U8("ukind")
		vrt.Assume(k == 0 || k >= 8)
		err := s.HandlePacket(drpcwire.Packet{ID: drpcwire.ID{Stream: sid, Message: 1}, Kind: drpcwire.Kind(k), Control: true, Data: vrt.BytesN("udata", 1)})
		vrt.Assert(err == nil, "unknown control packets are ignored")
		vrt.Cover("op-hp-unknown-control")
	case opHPUnknown:
		k := vrt.U8("ukind")
		vrt.Assume(k == 0 || k >= 8)
		err := s.HandlePacket(drpcwire.Packet{ID: drpcwire.ID{Stream: sid, Message: 1}, Kind: drpcwire.Kind(k)})
		if r.term == 0 {
			vrt.Assert(classify(err) == cInternal, "unknown non-control packet is an internal error")
			r.terminate(cInternal)
		} else {
			vrt.Assert(err == nil, "packets after termination are ignored")
		}
	case opHPForeign:
		other := vrt.U64("foreign")
		vrt.Assume(other != sid)
		err := s.HandlePacket(drpcwire.Packet{ID: drpcwire.ID{Stream: other, Message: 1}, Kind: drpcwire.Kind(vrt.U8("fkind")), Control: vrt.Bool("fcontrol")})
		vrt.Assert(err == nil, "packets of another stream are ignored")
	case opHPMessage:
		// a message packet blocks until received unless receiving is already over
		vrt.Assume(r.pbuf != 0)
		err := s.HandlePacket(drpcwire.Packet{ID: drpcwire.ID{Stream: sid, Message: 1}, Kind: drpcwire.KindMessage, Data: vrt.BytesN("mdata", 1)})
		vrt.Assert(err == nil, "late message packets are dropped")
	}
	// signals after every step
	vrt.Assert(s.IsTerminated() == (r.term != 0), "terminated signal equals reference")
	vrt.Assert(s.IsFinished() == r.finished(), "finished exactly when terminated and nothing in flight")
	done := false
	select {
	case <-s.Context().Done():
		done = true
	default:
	}
	vrt.Assert(done == r.finished(), "context done exactly when finished")
	if done {
		vrt.Assert(s.Context().Err() == context.Canceled, "finished stream context reports Canceled")
	} else {
		vrt.Assert(s.Context().Err() == nil, "live stream context has no error")
	}
	vrt.Assert(s.sigs.send.IsSet() == (r.send != 0), "send-closed state equals reference")
	vrt.Assert(s.sigs.recv.IsSet() == (r.recv != 0), "recv-closed state equals reference")
	vrt.Assert(s.sigs.cancel.IsSet() == (r.cancel != 0), "cancel state equals reference")
	vrt.Assert(!tr.reenter, "transport never sees two writes in flight")
	vrt.Assert(!tr.lateWrite, "no write starts after the stream reported finished")
}

// VerifH_StreamHistories: every history of `depth` operations over the full alphabet, on a
// fresh stream with a working transport: results, signals and emitted packets equal the
// reference state machine.
func VerifH_StreamHistories() {
	depth := vrt.Param("depth", 3)
	sid := uint64(vrt.U8("sid")) + 1
	tr := &recTransport{}
	wr := drpcwire.NewWriter(tr, vrt.Param("wsize", 64))
	s := NewWithOptions(context.Background(), sid, wr, Options{SplitSize: vrt.Param("split", -1)})
	r := &refStream{}
	tr.afterTerm = s
	for i := 0; i < depth; i++ {
		stepBoth(s, r, tr, sid, i)
	}
	checkLog(tr.log, sid, r.out)
	vrt.Cover("histories-end")
	if r.term != 0 {
		vrt.Cover("histories-terminated")
	}
}
