#!/bin/bash
# usage: tools/solver_diff.sh [ids...]   (default: the solver-heavy sequential checks)
# Runs the quick tier of the given checks once per solver back end (z3 5.1.0 = default,
# z3 4.8.12, cvc5 1.0) and compares verdicts, obligations and cover sets per harness. Evidence of these
# runs goes to scratch files (VERIF_ONLY), never to evidence/. Exit 1 on any disagreement.
cd "$(dirname "$0")/.."
ids=${@:-C08 C09 C11 C13 C14 C18}
rc=0
for id in $ids; do
  for sv in z3-new z3 cvc5; do
    VERIF_SOLVER=$sv VERIF_ONLY=VerifH_ VERIF_NO_WITNESS=1 GOSMT_TIMEOUT_CAP=900 bin/check $id quick > /tmp/sdiff_$id.$sv.log 2>&1; r=$?
    cp /tmp/verif_partial_$id.json /tmp/sdiff_$id.$sv.json 2>/dev/null
    echo "$id $sv exit=$r"
  done
  python3 - $id <<'PY' || rc=1
import json,sys
id=sys.argv[1]
ref=None; bad=False
sigs={}
for sv in ("z3-new","z3","cvc5"):
    try: d=json.load(open(f"/tmp/sdiff_{id}.{sv}.json"))
    except Exception as e:
        print(f"  {id} {sv}: no evidence ({e})"); bad=True; continue
    sigs[sv]={h["harness"]:(h.get("status"),h.get("violations"),tuple(h.get("covers_reached") or [])) for h in d["coverage"]["harnesses"]}
hs=sorted({h for s in sigs.values() for h in s})
for h in hs:
    verdicts={sv:sigs[sv].get(h) for sv in sigs}
    decided={sv:v for sv,v in verdicts.items() if v and v[0] in ("ok","violated")}
    undecided=[sv for sv,v in verdicts.items() if not v or v[0] not in ("ok","violated")]
    if len({(v[0],v[1]) for v in decided.values()})>1:
        bad=True; print(f"  {id} {h}: VERDICTS DIFFER {decided}")
    elif len({v[2] for v in decided.values()})>1:
        bad=True; print(f"  {id} {h}: cover sets differ {decided}")
    if undecided: print(f"  {id} {h}: no verdict from {undecided} (timeout/unknown: reduced bound, not a disagreement)")
print(f"  {id}: back ends "+("DISAGREE" if bad else "agree where they decide"))
sys.exit(1 if bad else 0)
PY
done
exit $rc
