package drpcmigrate

import (
	"context"
	"io"
	"net"
	"time"

	vrt "storj.io/drpc/internal/verifrt"
	"storj.io/drpc/internal/verifrt/hx"
)

type fAddr struct{}

func (fAddr) Network() string { return "fake" }
func (fAddr) String() string  { return "fake" }

// fConn is a scripted net.Conn: Read delivers `in` in reads of at most chunk bytes then
// EOF; Write records.
type fConn struct {
	in     []byte
	chunk  int
	out    []byte
	writes int
	closed bool
	closes int
	slow   bool // Write has a scheduling point before it takes effect (a slow underlying conn)
}

func (c *fConn) Read(p []byte) (int, error) {
	if len(c.in) == 0 {
		return 0, io.EOF
	}
	n := len(p)
	if c.chunk > 0 && c.chunk < n {
		n = c.chunk
	}
	n = copy(p[:n], c.in)
	c.in = c.in[n:]
	return n, nil
}
func (c *fConn) Write(p []byte) (int, error) {
	if c.slow {
		vrt.Yield()
	}
	c.writes++
	c.out = append(c.out, p...)
	return len(p), nil
}
func (c *fConn) Close() error                       { c.closes++; c.closed = true; return nil }
func (c *fConn) LocalAddr() net.Addr                { return fAddr{} }
func (c *fConn) RemoteAddr() net.Addr               { return fAddr{} }
func (c *fConn) SetDeadline(t time.Time) error      { return nil }
func (c *fConn) SetReadDeadline(t time.Time) error  { return nil }
func (c *fConn) SetWriteDeadline(t time.Time) error { return nil }

// VerifH_HeaderConn: up to 3 writes of symbolic sizes (0..2 bytes, including an empty
// first write): the underlying connection receives header ++ payload bytes in order, the
// header exactly once and before the first payload byte; reported counts exclude it.
func VerifH_HeaderConn() {
	under := &fConn{}
	hc := NewHeaderConn(under, "HD")
	nw := vrt.Int("writes")
	vrt.Assume(nw >= 1 && nw <= 3)
	var want []byte
	for i := 0; i < nw; i++ {
		b := vrt.Bytes("w", 2)
		n, err := hc.Write(b)
		vrt.Assert(err == nil && n == len(b), "Write reports exactly the payload bytes written")
		want = append(want, b...)
	}
	vrt.Assert(len(under.out) == 2+len(want), "header is sent exactly once")
	if len(under.out) >= 2 {
		vrt.Assert(under.out[0] == 'H' && under.out[1] == 'D', "header precedes the first payload byte")
		for i := range want {
			if 2+i < len(under.out) {
				vrt.Assert(under.out[2+i] == want[i], "payload bytes follow unmodified, in order")
			}
		}
	}
	vrt.Cover("header-end")
}

// VerifH_HeaderConnConcurrent: two goroutines write concurrently for the first time.
func VerifH_HeaderConnConcurrent() {
	under := &fConn{slow: true}
	hc := NewHeaderConn(under, "HD")
	d1, d2 := false, false
	go func() { _, _ = hc.Write([]byte{'a'}); d1 = true }()
	go func() { _, _ = hc.Write([]byte{'b'}); d2 = true }()
	vrt.Quiesce()
	vrt.Assert(d1 && d2, "both writes return")
	vrt.Assert(len(under.out) == 4 && under.out[0] == 'H' && under.out[1] == 'D', "header exactly once and first, whatever the order of the writers")
	vrt.Cover("header-conc-end")
}

// VerifH_RouteConn: one connection whose first bytes arrive in arbitrary chunks is routed
// by the mux: registered prefix => that listener, prefix consumed; otherwise => default
// listener with the byte stream intact from the first byte; too short => closed.
func VerifH_RouteConn() {
	prefixLen := 2
	base := &fListener{}
	m := NewListenMux(base, prefixLen)
	route := vrt.Str("route", 2)
	vrt.Assume(len(route) == 2)
	routed := m.Route(route)
	data := vrt.Bytes("data", vrt.Param("maxdata", 4))
	orig := append([]byte(nil), data...)
	conn := &fConn{in: data, chunk: vrt.Int("chunk")}
	vrt.Assume(conn.chunk >= 1 && conn.chunk <= 3)
	var gotR, gotD net.Conn
	var errR, errD error
	go func() { gotR, errR = routed.Accept() }()
	go func() { gotD, errD = m.Default().Accept() }()
	rdone := false
	go func() { m.routeConn(conn); rdone = true }()
	vrt.Quiesce()
	vrt.Assert(rdone, "routing completes")
	delivered := 0
	if gotR != nil {
		delivered++
	}
	if gotD != nil {
		delivered++
	}
	if len(orig) < prefixLen {
		vrt.Assert(delivered == 0 && conn.closed, "a connection that ends before its prefix is closed, not delivered")
		vrt.Cover("route-short")
	} else {
		vrt.Assert(delivered == 1 && !conn.closed, "the connection is delivered to exactly one listener and not closed")
		isRoute := orig[0] == route[0] && orig[1] == route[1]
		readAll := func(c net.Conn) []byte {
			var out []byte
			buf := make([]byte, 3)
			for i := 0; i < 8; i++ {
				n, err := c.Read(buf)
				out = append(out, buf[:n]...)
				if err != nil {
					break
				}
			}
			return out
		}
		if isRoute {
			vrt.Assert(gotR != nil, "a registered prefix goes to its route")
			if gotR != nil {
				rest := readAll(gotR)
				vrt.Assert(len(rest) == len(orig)-prefixLen, "the routed connection has the prefix consumed")
				for i := range rest {
					vrt.Assert(rest[i] == orig[prefixLen+i], "routed bytes after the prefix are unmodified")
				}
			}
			vrt.Cover("route-routed")
		} else {
			vrt.Assert(gotD != nil, "an unregistered prefix goes to the default listener")
			if gotD != nil {
				all := readAll(gotD)
				vrt.Assert(len(all) == len(orig), "the default connection yields the whole client stream")
				for i := range all {
					vrt.Assert(all[i] == orig[i], "the default connection yields the client's bytes unmodified from the first byte")
				}
			}
			vrt.Cover("route-default")
		}
	}
	_, _ = errR, errD
	// release the blocked acceptors
	routed.Close()
	m.Default().Close()
}

// fListener is a base listener that blocks in Accept until closed (or fails at once).
type fListener struct {
	closed    bool
	closes    int
	failNow   bool
	acceptErr error
}

func (l *fListener) Accept() (net.Conn, error) {
	if l.failNow {
		return nil, &hx.Err{S: "accept failed"}
	}
	vrt.WaitFor(&l.closed)
	return nil, &hx.Err{S: "base closed"}
}
func (l *fListener) Close() error   { l.closes++; l.closed = true; return nil }
func (l *fListener) Addr() net.Addr { return fAddr{} }

// VerifH_MuxStop: Run with one routed listener whose Accept is blocked; the mux stops by
// context cancellation or by a base Accept error: Accept fails instead of blocking, Run
// returns, nothing is left blocked.
func VerifH_MuxStop() {
	base := &fListener{failNow: vrt.Bool("baseAcceptFails")}
	m := NewListenMux(base, 2)
	routed := m.Route("ab")
	ctx := hx.NewCtx()
	var accErr, defErr, runErr error
	accDone, defDone, runDone := false, false, false
	go func() { _, accErr = routed.Accept(); accDone = true }()
	go func() { _, defErr = m.Default().Accept(); defDone = true }()
	go func() { runErr = m.Run(ctx); runDone = true }()
	vrt.Quiesce()
	if !base.failNow {
		vrt.Assert(!accDone && !runDone, "mux is running, Accept is blocked")
		ctx.Cancel(context.Canceled)
		vrt.Quiesce()
	}
	vrt.Assert(runDone, "Run returns when the mux stops")
	vrt.Assert(accDone && accErr != nil, "a routed listener's Accept fails rather than blocking when the mux stops")
	vrt.Assert(defDone && defErr != nil, "the default listener's Accept fails rather than blocking when the mux stops")
	if base.failNow {
		vrt.Assert(runErr != nil, "Run reports the base listener's error")
	}
	vrt.Assert(vrt.Unfinished() == 0, "no goroutine of the mux is left behind")
	vrt.Cover("muxstop-end")
}

// VerifH_RouteThenStop: a connection is routed while nobody is accepting on its listener;
// then the listener is closed or the mux stops (symbolic), or an Accept finally arrives.
// The connection must end up delivered to exactly one Accept or closed - never neither.
func VerifH_RouteThenStop() {
	base := &fListener{}
	m := NewListenMux(base, 2)
	routed := m.Route("ab")
	toRoute := vrt.Bool("registeredPrefix")
	data := []byte{'a', 'b', 'x'}
	if !toRoute {
		data = []byte{'z', 'z', 'x'}
	}
	conn := &fConn{in: data}
	rdone := false
	go func() { m.routeConn(conn); rdone = true }()
	vrt.Quiesce()
	var lis net.Listener = routed
	if !toRoute {
		lis = m.Default()
	}
	how := vrt.Choice("how", 2)
	var got net.Conn
	switch how {
	case 0: // the listener is closed before anyone accepts
		_ = lis.Close()
		vrt.Quiesce()
		c, err := lis.Accept()
		if err == nil {
			got = c
		}
	case 1: // an Accept arrives late
		adone := false
		go func() { got, _ = lis.Accept(); adone = true }()
		vrt.Quiesce()
		vrt.Assert(adone, "a late Accept returns")
	}
	vrt.Quiesce()
	vrt.Assert(rdone, "routing completes")
	vrt.Assert((got != nil) != conn.closed, "the routed connection is delivered to exactly one Accept or closed, never neither nor both")
	if how == 1 {
		vrt.Assert(got != nil, "a connection routed before the Accept is delivered to it")
	}
	_ = routed.Close()
	_ = m.Default().Close()
	vrt.Cover("routestop-end")
}

// VerifH_RouteAfterListenerClose: a routed listener is closed by its user while the mux keeps
// running. Once that has settled the prefix is no longer registered: a connection carrying
// it goes to the default listener with its byte stream intact, or - when the prefix is
// routed again - to the new listener (prefix consumed), whose Accept works.
func VerifH_RouteAfterListenerClose() {
	base := &fListener{}
	m := NewListenMux(base, 2)
	first := m.Route("ab")
	other := m.Route("cd") // an unrelated route stays registered
	_ = first.Close()
	vrt.Quiesce()
	_, err := first.Accept()
	vrt.Assert(err != nil, "Accept on a closed routed listener fails")
	reroute := vrt.Bool("reroute")
	var lis net.Listener = m.Default()
	if reroute {
		lis = m.Route("ab")
	}
	data := []byte{'a', 'b', vrt.U8("x")}
	orig := append([]byte(nil), data...)
	conn := &fConn{in: data}
	var got net.Conn
	var aerr error
	adone, rdone := false, false
	go func() { got, aerr = lis.Accept(); adone = true }()
	go func() { m.routeConn(conn); rdone = true }()
	vrt.Quiesce()
	vrt.Assert(rdone, "routing completes")
	vrt.Assert(adone && aerr == nil && got != nil, "the connection is delivered: to the re-registered route, otherwise to the default listener")
	vrt.Assert(!conn.closed, "a delivered connection is not closed")
	if got != nil {
		var all []byte
		buf := make([]byte, 4)
		for i := 0; i < 4; i++ {
			n, err := got.Read(buf)
			all = append(all, buf[:n]...)
			if err != nil {
				break
			}
		}
		if reroute {
			vrt.Assert(len(all) == 1 && all[0] == orig[2], "the re-registered route sees the stream after the consumed prefix")
		} else {
			vrt.Assert(len(all) == 3 && all[0] == 'a' && all[1] == 'b' && all[2] == orig[2], "the default listener sees the client's bytes from the first byte")
		}
	}
	// the unrelated route still works
	conn2 := &fConn{in: []byte{'c', 'd', 'y'}}
	var got2 net.Conn
	go func() { got2, _ = other.Accept() }()
	go func() { m.routeConn(conn2) }()
	vrt.Quiesce()
	vrt.Assert(got2 != nil && !conn2.closed, "another registered route is unaffected")
	_ = lis.Close()
	_ = other.Close()
	_ = m.Default().Close()
	vrt.Quiesce()
	vrt.Cover("reroute-end")
}
