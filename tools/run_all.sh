#!/bin/bash
# usage: tools/run_all.sh quick|thorough  -- runs every registered check on the current tree
cd "$(dirname "$0")/.."
tier=${1:-quick}
rc=0
for id in $(python3 -c "import json;print(' '.join(sorted(json.load(open('checks.json')).keys())))"); do
  start=$(date +%s)
  out=$(bin/check $id $tier 2>&1); r=$?
  echo "$id exit=$r $(( $(date +%s)-start ))s $(echo "$out" | grep -c KNOWN-FINDING) known"
  if [ $r -ne 0 ]; then rc=1; echo "$out" | grep -v "^   " | tail -5; fi
done
exit $rc
