package main

import (
	"fmt"
	"go/constant"
	"go/token"
	"go/types"
	"hash/fnv"
	"strings"

	"golang.org/x/tools/go/ssa"
)

func (e *Engine) info(fn *ssa.Function) *FnInfo {
	if fi, ok := e.fnInfo[fn]; ok {
		return fi
	}
	fi := &FnInfo{fn: fn, index: map[ssa.Value]int{}}
	n := 0
	for _, p := range fn.Params {
		fi.index[p] = n
		n++
	}
	for _, fv := range fn.FreeVars {
		fi.index[fv] = n
		n++
	}
	for _, b := range fn.Blocks {
		for _, in := range b.Instrs {
			if v, ok := in.(ssa.Value); ok {
				fi.index[v] = n
				n++
			}
		}
	}
	fi.n = n
	e.fnInfo[fn] = fi
	e.funcsUsed[fn.String()] = true
	return fi
}

// operand value lookup
func (e *Engine) val(st *State, fr *Frame, v ssa.Value) Value {
	switch x := v.(type) {
	case *ssa.Const:
		return e.constVal(x)
	case *ssa.Global:
		return Ptr{obj: e.globalObj(st, x)}
	case *ssa.Function:
		return FuncV{fn: x}
	case *ssa.Builtin:
		return FuncV{bi: x}
	}
	i, ok := fr.info.index[v]
	if !ok {
		panic(engErr("unknown ssa value %v in %v", v, fr.fn))
	}
	return fr.regs[i]
}

func (e *Engine) constVal(c *ssa.Const) Value {
	t := c.Type()
	if c.Value == nil {
		return e.zero(t)
	}
	if w, _, ok := intWidth(t); ok {
		if w == 0 {
			return e.ts.Bool(constant.BoolVal(c.Value))
		}
		if c.Value.Kind() == constant.Int {
			if u, ok := constant.Uint64Val(c.Value); ok {
				return e.ts.BV(w, u)
			}
			i, _ := constant.Int64Val(c.Value)
			return e.ts.BV(w, uint64(i))
		}
		// float constant converted to int etc.
		i, _ := constant.Int64Val(constant.ToInt(c.Value))
		return e.ts.BV(w, uint64(i))
	}
	if isString(t) {
		return e.strConst(constant.StringVal(c.Value))
	}
	if b, ok := t.Underlying().(*types.Basic); ok && (b.Info()&types.IsFloat) != 0 {
		return Opaque{"float const"}
	}
	panic(engErr("const of type %v", t))
}

func (e *Engine) globalObj(st *State, g *ssa.Global) int {
	if id, ok := e.globals[g]; ok {
		return id
	}
	if id, ok := st.globals[g]; ok {
		return id
	}
	id := st.alloc(e.zero(elemType(g.Type())))
	if e.initPhase {
		e.globals[g] = id
	} else {
		if g.Pkg != nil && !e.initialized[g.Pkg] && !e.lazyGlobalOK(g) {
			panic(engErr("use of global %v of uninitialised package", g))
		}
		st.globals[g] = id
	}
	return id
}

func (e *Engine) lazyGlobalOK(g *ssa.Global) bool {
	return true
}

func (e *Engine) setReg(fr *Frame, v ssa.Value, x Value) {
	fr.regs[fr.info.index[v]] = x
}

func (e *Engine) newFrame(fn *ssa.Function, args []Value, binds []Value) *Frame {
	fi := e.info(fn)
	if len(fn.Blocks) == 0 {
		panic(engErr("function without body: %s", fn.String()))
	}
	fr := &Frame{fn: fn, info: fi, block: fn.Blocks[0], regs: make([]Value, fi.n)}
	if len(args) != len(fn.Params) {
		panic(engErr("arg count mismatch calling %s: %d vs %d", fn, len(args), len(fn.Params)))
	}
	for i, p := range fn.Params {
		fr.regs[fi.index[p]] = args[i]
	}
	for i, fv := range fn.FreeVars {
		fr.regs[fi.index[fv]] = binds[i]
	}
	return fr
}

// ---- decisions ----

func (e *Engine) check(pc *PC, extra *Term) Result {
	r, _ := e.solver.Check(pc, extra, nil)
	if r == RUnknown {
		panic(inconclusive{"solver returned unknown"})
	}
	return r
}

func (e *Engine) decide(st *State, c *Term) bool {
	if c.w != 0 {
		panic(engErr("decide on non-bool"))
	}
	if c.IsTrue() {
		return true
	}
	if c.IsFalse() {
		return false
	}
	if v, ok := st.known[c.id]; ok {
		return v
	}
	nc := e.ts.Not(c)
	if v, ok := st.known[nc.id]; ok {
		return !v
	}
	b := e.witnessEval(st, c)
	other := c
	if b {
		other = nc
	}
	if e.check(st.pc, other) == RUnsat {
		st.known[c.id] = b
		return b
	}
	panic(forkCond{c, b})
}

// ensureWitness makes sure the state carries a model of its path condition.
func (e *Engine) ensureWitness(st *State) {
	if st.witness != nil {
		return
	}
	r, m := e.solver.Check(st.pc, nil, st.vars)
	if r == RUnknown {
		panic(inconclusive{"solver returned unknown"})
	}
	if r == RUnsat {
		panic(engErr("infeasible path condition"))
	}
	st.witness = m
}

func (e *Engine) witnessEval(st *State, c *Term) bool {
	e.ensureWitness(st)
	return e.ts.Eval(c, st.witness, map[int]uint64{}) != 0
}

// pushPC adds a conjunct to the path condition, keeping the witness if it still holds.
func (e *Engine) pushPC(st *State, c *Term) {
	if st.witness != nil && e.ts.Eval(c, st.witness, map[int]uint64{}) == 0 {
		st.witness = nil
	}
	st.pc = st.pc.push(c)
	if c.w == 0 {
		st.known[c.id] = true
	}
}

// concrete returns the single value of t on this path, forking if several are feasible.
func (e *Engine) concrete(st *State, t *Term) uint64 {
	if t.IsConst() {
		return t.val
	}
	if v, ok := st.conc[t.id]; ok {
		return v
	}
	var vals []uint64
	extra := e.ts.True
	for {
		r, m := e.solver.Check(st.pc, extra, []*Term{t})
		if r == RUnknown {
			panic(inconclusive{"solver unknown in concretize"})
		}
		if r == RUnsat {
			break
		}
		v := m[termKey(t)]
		vals = append(vals, v)
		if len(vals) > e.cfg.MaxConcretize {
			panic(inconclusive{fmt.Sprintf("concretize: more than %d values for %v", e.cfg.MaxConcretize, t)})
		}
		var c *Term
		if t.w == 0 {
			c = e.ts.Eq(t, e.ts.Bool(v != 0))
		} else {
			c = e.ts.Eq(t, e.ts.BV(t.w, v))
		}
		extra = e.ts.And(extra, e.ts.Not(c))
	}
	if len(vals) == 0 {
		panic(engErr("concretize: infeasible path"))
	}
	if len(vals) == 1 {
		st.conc[t.id] = vals[0]
		return vals[0]
	}
	panic(forkVals{t, vals})
}

func termKey(t *Term) string {
	if t.op == OpVar {
		return t.name
	}
	return smtName(t)
}

func (e *Engine) concInt(st *State, t *Term) int {
	v := e.concrete(st, t)
	return int(sext(v, t.w))
}

// ---- instruction execution ----

// execInstr executes one instruction of the current thread. It must perform
// all decisions (which may fork via panic) before mutating the state.
func (e *Engine) execInstr(st *State, th *Thread, fr *Frame, instr ssa.Instruction) {
	ts := e.ts
	switch in := instr.(type) {
	case *ssa.DebugRef:
	case *ssa.Alloc:
		obj := st.alloc(e.zero(elemType(in.Type())))
		e.setReg(fr, in, Ptr{obj: obj})
	case *ssa.BinOp:
		e.setReg(fr, in, e.binop(st, in.Op, in.X.Type(), e.val(st, fr, in.X), e.val(st, fr, in.Y), in.Type()))
	case *ssa.UnOp:
		x := e.val(st, fr, in.X)
		switch in.Op {
		case token.NOT:
			e.setReg(fr, in, ts.Not(x.(*Term)))
		case token.SUB:
			e.setReg(fr, in, ts.Neg(x.(*Term)))
		case token.XOR:
			e.setReg(fr, in, ts.Not(x.(*Term)))
		case token.MUL:
			p := x.(Ptr)
			if e.fine && th.id >= 0 && e.isSharedLoc(st, p) && !th.granted {
				e.schedPoint(st, th, "load", in.Pos())
			}
			th.granted = false
			if e.cfg.Race && (len(p.path) > 0 || p.sym != nil) {
				e.raceAccess(st, p.obj, false)
			}
			lv := e.loadPtr(st, p)
			if iv, isI := lv.(IfaceV); isI {
				// reinterpretation of an interface value as its two machine words
				// (*(*[2]uintptr)(unsafe.Pointer(&iface))): type word and data word
				if at, ok := in.Type().Underlying().(*types.Array); ok && at.Len() == 2 {
					lv = e.ifaceWords(iv)
				} else if bt, ok := in.Type().Underlying().(*types.Basic); ok && bt.Kind() == types.Uintptr {
					lv = e.ifaceWords(iv).(*ArrV).get(0) // first word only: the type word
				}
			}
			e.setReg(fr, in, lv)
		case token.ARROW:
			e.execRecv(st, th, fr, in)
			return
		default:
			panic(engErr("unop %v", in.Op))
		}
	case *ssa.Store:
		p := e.val(st, fr, in.Addr).(Ptr)
		if e.fine && e.isSharedLoc(st, p) && !th.granted {
			e.schedPoint(st, th, "store", in.Pos())
		}
		th.granted = false
		p = e.concPtr(st, p)
		if e.cfg.Race && len(p.path) > 0 {
			e.raceAccess(st, p.obj, true)
		}
		st.store(p, e.val(st, fr, in.Val))
	case *ssa.FieldAddr:
		p := e.val(st, fr, in.X).(Ptr)
		if p.obj == 0 {
			panic(goPanic{"nil pointer dereference (field address)"})
		}
		p = e.concPtr(st, p)
		e.setReg(fr, in, p.extend(in.Field))
	case *ssa.Field:
		s := e.val(st, fr, in.X).(*StructV)
		e.setReg(fr, in, s.f[in.Field])
	case *ssa.IndexAddr:
		e.setReg(fr, in, e.indexAddr(st, fr, in))
	case *ssa.Index:
		e.setReg(fr, in, e.indexVal(st, fr, in))
	case *ssa.Extract:
		e.setReg(fr, in, e.val(st, fr, in.Tuple).(TupleV)[in.Index])
	case *ssa.Phi:
		// handled at block entry
		panic(engErr("phi executed directly"))
	case *ssa.ChangeType:
		e.setReg(fr, in, e.val(st, fr, in.X))
	case *ssa.ChangeInterface:
		e.setReg(fr, in, e.val(st, fr, in.X))
	case *ssa.MakeInterface:
		e.setReg(fr, in, IfaceV{t: in.X.Type(), v: e.val(st, fr, in.X)})
	case *ssa.Convert:
		e.setReg(fr, in, e.convert(st, e.val(st, fr, in.X), in.X.Type(), in.Type()))
	case *ssa.MakeClosure:
		binds := make([]Value, len(in.Bindings))
		for i, b := range in.Bindings {
			binds[i] = e.val(st, fr, b)
		}
		e.setReg(fr, in, FuncV{fn: in.Fn.(*ssa.Function), binds: binds})
	case *ssa.MakeSlice:
		n := e.concInt(st, e.val(st, fr, in.Len).(*Term))
		c := e.concInt(st, e.val(st, fr, in.Cap).(*Term))
		if n < 0 || c < n {
			panic(goPanic{"makeslice: len out of range"})
		}
		if c > e.cfg.MaxAlloc {
			panic(goPanic{fmt.Sprintf("makeslice: allocation of %d elements exceeds engine limit %d", c, e.cfg.MaxAlloc)})
		}
		obj := st.alloc(&ArrV{n: c, def: e.zero(elemType(in.Type()))})
		e.markLibArray(st, obj)
		e.setReg(fr, in, SliceV{obj: obj, off: e.i64(0), len: e.i64(uint64(n)), cap: e.i64(uint64(c))})
	case *ssa.MakeMap:
		obj := st.alloc(&MapData{})
		e.setReg(fr, in, MapV{obj: obj})
	case *ssa.MakeChan:
		n := e.concInt(st, e.val(st, fr, in.Size).(*Term))
		obj := st.alloc(&ChanData{cap: n, elem: elemType(in.Type())})
		e.setReg(fr, in, ChanV{obj: obj})
	case *ssa.Slice:
		e.setReg(fr, in, e.sliceOp(st, fr, in))
	case *ssa.Lookup:
		e.setReg(fr, in, e.lookup(st, fr, in))
	case *ssa.MapUpdate:
		m := e.val(st, fr, in.Map).(MapV)
		if m.obj == 0 {
			panic(goPanic{"assignment to entry in nil map"})
		}
		k := e.val(st, fr, in.Key)
		v := e.val(st, fr, in.Value)
		md := st.heap[m.obj].(*MapData)
		idx := e.mapFind(st, md, k)
		nm := &MapData{keys: append([]Value(nil), md.keys...), vals: append([]Value(nil), md.vals...)}
		if idx >= 0 {
			nm.vals[idx] = v
		} else {
			nm.keys = append(nm.keys, k)
			nm.vals = append(nm.vals, v)
		}
		st.heap[m.obj] = nm
	case *ssa.Range:
		e.setReg(fr, in, e.rangeInit(st, e.val(st, fr, in.X), in.X.Type()))
	case *ssa.Next:
		e.setReg(fr, in, e.rangeNext(st, fr, in))
	case *ssa.TypeAssert:
		e.setReg(fr, in, e.typeAssert(st, e.val(st, fr, in.X).(IfaceV), in))
	case *ssa.Call:
		e.execCall(st, th, fr, in, in.Common())
		return
	case *ssa.Go:
		e.execGo(st, th, fr, in)
	case *ssa.Defer:
		c := in.Common()
		d := Deferred{call: c}
		if !c.IsInvoke() {
			d.fn = e.val(st, fr, c.Value)
		} else {
			d.fn = e.val(st, fr, c.Value)
		}
		for _, a := range c.Args {
			d.args = append(d.args, e.val(st, fr, a))
		}
		fr.defers = append(fr.defers, d)
	case *ssa.RunDefers:
		e.runDefers(st, th, fr)
		return
	case *ssa.Send:
		e.execSend(st, th, fr, in)
		return
	case *ssa.Select:
		e.execSelect(st, th, fr, in)
		return
	case *ssa.Jump:
		e.jump(st, fr, fr.block.Succs[0])
		return
	case *ssa.If:
		c := e.val(st, fr, in.Cond).(*Term)
		if e.decide(st, c) {
			e.jump(st, fr, fr.block.Succs[0])
		} else {
			e.jump(st, fr, fr.block.Succs[1])
		}
		return
	case *ssa.Return:
		var res Value
		switch len(in.Results) {
		case 0:
		case 1:
			res = e.val(st, fr, in.Results[0])
		default:
			tv := make(TupleV, len(in.Results))
			for i, r := range in.Results {
				tv[i] = e.val(st, fr, r)
			}
			res = tv
		}
		e.doReturn(st, th, res)
		return
	case *ssa.Panic:
		x := e.val(st, fr, in.X)
		panic(goPanic{"explicit panic: " + e.panicText(st, x)})
	case *ssa.SliceToArrayPointer:
		s := e.val(st, fr, in.X).(SliceV)
		if e.concInt(st, s.off) != 0 {
			panic(engErr("SliceToArrayPointer with offset"))
		}
		e.setReg(fr, in, Ptr{obj: s.obj})
	default:
		panic(engErr("unsupported instruction %T: %v", instr, instr))
	}
	fr.pc++
}

func (e *Engine) panicText(st *State, x Value) string {
	if iv, ok := x.(IfaceV); ok {
		if s, ok := iv.v.(*StrV); ok {
			if str, ok := e.concreteString(st, s); ok {
				return str
			}
		}
		if iv.t != nil {
			return iv.t.String()
		}
	}
	return "?"
}

func (e *Engine) concreteString(st *State, s *StrV) (string, bool) {
	if !s.len.IsConst() || !s.off.IsConst() {
		return "", false
	}
	var sb strings.Builder
	for i := 0; i < int(s.len.val); i++ {
		t, ok := s.arr.get(int(s.off.val) + i).(*Term)
		if !ok || !t.IsConst() {
			return "", false
		}
		sb.WriteByte(byte(t.val))
	}
	return sb.String(), true
}

func (e *Engine) jump(st *State, fr *Frame, to *ssa.BasicBlock) {
	from := fr.block
	// evaluate phis in parallel
	idx := -1
	for i, p := range to.Preds {
		if p == from {
			idx = i
			break
		}
	}
	var phis []*ssa.Phi
	var vals []Value
	for _, in := range to.Instrs {
		p, ok := in.(*ssa.Phi)
		if !ok {
			break
		}
		phis = append(phis, p)
		vals = append(vals, e.val(st, fr, p.Edges[idx]))
	}
	for i, p := range phis {
		e.setReg(fr, p, vals[i])
	}
	fr.prev = from
	fr.block = to
	fr.pc = len(phis)
	st.steps++
	if to.Index <= from.Index {
		// back edge: count loop iterations for the step budget
		st.steps += 4
	}
}

func (e *Engine) doReturn(st *State, th *Thread, res Value) {
	fr := th.top()
	if fr.wrap != nil {
		res = fr.wrap(st, res)
	}
	th.frames = th.frames[:len(th.frames)-1]
	e.deliverResult(st, th, res)
}

// deliverResult hands the result of a finished callee to the caller frame.
func (e *Engine) deliverResult(st *State, th *Thread, res Value) {
	if len(th.frames) == 0 {
		th.finished = true
		th.retval = res
		return
	}
	caller := th.top()
	if caller.inDefers {
		// result of a deferred call is discarded; continue running defers
		e.runDefers(st, th, caller)
		return
	}
	instr := caller.block.Instrs[caller.pc]
	if v, ok := instr.(ssa.Value); ok {
		if _, isCall := instr.(*ssa.Call); isCall {
			e.setReg(caller, v, res)
		}
	}
	caller.pc++
}

func (e *Engine) runDefers(st *State, th *Thread, fr *Frame) {
	if len(fr.defers) == 0 {
		if fr.inDefers {
			fr.inDefers = false
		}
		fr.pc++
		return
	}
	// peek: the entry is popped only once the call has been committed (an
	// intrinsic may raise a fork/yield and the instruction is then re-executed)
	d := fr.defers[len(fr.defers)-1]
	fr.inDefers = true
	e.invokeC(st, th, fr, d.call, d.fn, d.args, func() { fr.defers = fr.defers[:len(fr.defers)-1] })
}

// ---- binary operations ----

func (e *Engine) binop(st *State, op token.Token, xt types.Type, x, y Value, rt types.Type) Value {
	ts := e.ts
	switch a := x.(type) {
	case *Term:
		b, ok := y.(*Term)
		if !ok {
			panic(engErr("binop operand mismatch %T %T", x, y))
		}
		w, signed, _ := intWidth(xt)
		if a.w == 0 {
			switch op {
			case token.EQL:
				return ts.Eq(a, b)
			case token.NEQ:
				return ts.Ne(a, b)
			case token.AND, token.LAND:
				return ts.And(a, b)
			case token.OR, token.LOR:
				return ts.Or(a, b)
			}
			panic(engErr("bool binop %v", op))
		}
		_ = w
		switch op {
		case token.ADD:
			return ts.Bin(OpAdd, a, b)
		case token.SUB:
			return ts.Bin(OpSub, a, b)
		case token.MUL:
			return ts.Bin(OpMul, a, b)
		case token.QUO, token.REM:
			if e.decide(st, ts.Eq(b, ts.BV(b.w, 0))) {
				panic(goPanic{"integer divide by zero"})
			}
			if op == token.QUO {
				if signed {
					return ts.Bin(OpSDiv, a, b)
				}
				return ts.Bin(OpUDiv, a, b)
			}
			if signed {
				return ts.Bin(OpSRem, a, b)
			}
			return ts.Bin(OpURem, a, b)
		case token.AND:
			return ts.Bin(OpAnd, a, b)
		case token.OR:
			return ts.Bin(OpOr, a, b)
		case token.XOR:
			return ts.Bin(OpXor, a, b)
		case token.AND_NOT:
			return ts.Bin(OpAnd, a, ts.Not(b))
		case token.SHL, token.SHR:
			// shift count may have a different width
			sb := b
			if sb.w < a.w {
				sb = ts.ZExt(sb, a.w)
			} else if sb.w > a.w {
				// count >= width => result 0 (or sign); clamp
				big := ts.Ule(ts.BV(sb.w, uint64(a.w)), sb)
				low := ts.Extract(sb, a.w-1, 0)
				sb = ts.Ite(big, ts.BV(a.w, uint64(a.w)), low)
			}
			if op == token.SHL {
				return ts.Bin(OpShl, a, sb)
			}
			if signed {
				return ts.Bin(OpAShr, a, sb)
			}
			return ts.Bin(OpLShr, a, sb)
		case token.EQL:
			return ts.Eq(a, b)
		case token.NEQ:
			return ts.Ne(a, b)
		case token.LSS:
			if signed {
				return ts.Slt(a, b)
			}
			return ts.Ult(a, b)
		case token.LEQ:
			if signed {
				return ts.Sle(a, b)
			}
			return ts.Ule(a, b)
		case token.GTR:
			if signed {
				return ts.Slt(b, a)
			}
			return ts.Ult(b, a)
		case token.GEQ:
			if signed {
				return ts.Sle(b, a)
			}
			return ts.Ule(b, a)
		}
		panic(engErr("int binop %v", op))
	case *StrV:
		b := y.(*StrV)
		switch op {
		case token.ADD:
			return e.strConcat(st, a, b)
		case token.EQL:
			return e.strEq(st, a, b)
		case token.NEQ:
			return ts.Not(e.strEq(st, a, b))
		case token.LSS, token.LEQ, token.GTR, token.GEQ:
			sa, ok1 := e.concreteString(st, a)
			sb, ok2 := e.concreteString(st, b)
			if !ok1 || !ok2 {
				panic(engErr("string ordering on symbolic strings"))
			}
			var r bool
			switch op {
			case token.LSS:
				r = sa < sb
			case token.LEQ:
				r = sa <= sb
			case token.GTR:
				r = sa > sb
			case token.GEQ:
				r = sa >= sb
			}
			return ts.Bool(r)
		}
		panic(engErr("string binop %v", op))
	default:
		switch op {
		case token.EQL:
			return e.valEq(st, x, y)
		case token.NEQ:
			return ts.Not(e.valEq(st, x, y))
		}
		panic(engErr("binop %v on %T", op, x))
	}
}

// valEq returns a Bool term for x == y (Go semantics).
func (e *Engine) valEq(st *State, x, y Value) *Term {
	ts := e.ts
	switch a := x.(type) {
	case *Term:
		return ts.Eq(a, y.(*Term))
	case Ptr:
		b := y.(Ptr)
		return ts.Bool(a.obj == b.obj && (a.obj == 0 || pathEq(a.path, b.path)))
	case *StrV:
		return e.strEq(st, a, y.(*StrV))
	case IfaceV:
		b, ok := y.(IfaceV)
		if !ok {
			panic(engErr("iface compared with %T", y))
		}
		if a.t == nil || b.t == nil {
			return ts.Bool(a.t == nil && b.t == nil)
		}
		if !types.Identical(a.t, b.t) {
			return ts.False
		}
		if !types.Comparable(a.t) {
			panic(goPanic{"comparing uncomparable type " + a.t.String()})
		}
		return e.valEq(st, a.v, b.v)
	case *StructV:
		b := y.(*StructV)
		r := ts.True
		for i := range a.f {
			r = ts.And(r, e.valEq(st, a.f[i], b.f[i]))
		}
		return r
	case *ArrV:
		b := y.(*ArrV)
		r := ts.True
		for i := 0; i < a.n; i++ {
			r = ts.And(r, e.valEq(st, a.get(i), b.get(i)))
		}
		return r
	case ChanV:
		return ts.Bool(a.obj == y.(ChanV).obj)
	case MapV:
		return ts.Bool(a.obj == y.(MapV).obj) // only nil comparisons are legal
	case FuncV:
		b := y.(FuncV)
		return ts.Bool(a.fn == nil && a.bi == nil && b.fn == nil && b.bi == nil)
	case SliceV:
		b := y.(SliceV)
		return ts.Bool(a.obj == 0 && b.obj == 0)
	case nil:
		return ts.Bool(y == nil)
	case ReflTypeV:
		b, ok := y.(ReflTypeV)
		if !ok {
			return ts.False
		}
		if a.typ != nil && b.typ != nil {
			return ts.Bool(types.Identical(a.typ, b.typ))
		}
		return ts.Bool(a.sig != nil && b.sig != nil && types.Identical(a.sig, b.sig))
	}
	panic(engErr("valEq on %T", x))
}

func (e *Engine) strEq(st *State, a, b *StrV) *Term {
	ts := e.ts
	if !e.decide(st, ts.Eq(a.len, b.len)) {
		return ts.False
	}
	n := e.concInt(st, a.len)
	ao := e.concInt(st, a.off)
	bo := e.concInt(st, b.off)
	r := ts.True
	for i := 0; i < n; i++ {
		r = ts.And(r, ts.Eq(a.arr.get(ao+i).(*Term), b.arr.get(bo+i).(*Term)))
	}
	return r
}

func (e *Engine) strConcat(st *State, a, b *StrV) *StrV {
	la := e.concInt(st, a.len)
	lb := e.concInt(st, b.len)
	ao := e.concInt(st, a.off)
	bo := e.concInt(st, b.off)
	if la == 0 {
		return b
	}
	if lb == 0 {
		return a
	}
	m := make(map[int]Value, la+lb)
	for i := 0; i < la; i++ {
		m[i] = a.arr.get(ao + i)
	}
	for i := 0; i < lb; i++ {
		m[la+i] = b.arr.get(bo + i)
	}
	return &StrV{arr: &ArrV{n: la + lb, def: e.ts.BV(8, 0), m: m}, off: e.i64(0), len: e.i64(uint64(la + lb))}
}

// ---- conversions ----

func (e *Engine) convert(st *State, x Value, from, to types.Type) Value {
	ts := e.ts
	if tw, _, ok := intWidth(to); ok && tw > 0 {
		if t, ok := x.(*Term); ok {
			fw, fsigned, _ := intWidth(from)
			_ = fw
			if t.w == tw {
				return t
			}
			if t.w > tw {
				return ts.Extract(t, tw-1, 0)
			}
			if fsigned {
				return ts.SExt(t, tw)
			}
			return ts.ZExt(t, tw)
		}
		if p, ok := x.(Ptr); ok { // unsafe.Pointer -> uintptr
			return ts.BV(tw, uint64(p.obj)<<16)
		}
		if _, ok := x.(Opaque); ok {
			return x
		}
	}
	if isString(to) {
		switch v := x.(type) {
		case *StrV:
			return v
		case SliceV: // []byte -> string
			n := e.concInt(st, v.len)
			if n == 0 {
				return e.strConst("")
			}
			off := e.concInt(st, v.off)
			arr := st.sliceArr(v)
			e.raceAccess(st, v.obj, false)
			m := make(map[int]Value, n)
			for i := 0; i < n; i++ {
				m[i] = arr.get(off + i)
			}
			return &StrV{arr: &ArrV{n: n, def: ts.BV(8, 0), m: m}, off: e.i64(0), len: e.i64(uint64(n))}
		case *Term: // string(rune)
			c := e.concrete(st, v)
			return e.strConst(string(rune(c)))
		}
	}
	if sl, ok := to.Underlying().(*types.Slice); ok {
		if s, ok := x.(*StrV); ok { // string -> []byte
			if b, ok := sl.Elem().Underlying().(*types.Basic); !ok || b.Kind() != types.Uint8 {
				panic(engErr("string -> []rune unsupported"))
			}
			n := e.concInt(st, s.len)
			off := e.concInt(st, s.off)
			m := make(map[int]Value, n)
			for i := 0; i < n; i++ {
				m[i] = s.arr.get(off + i)
			}
			obj := st.alloc(&ArrV{n: n, def: ts.BV(8, 0), m: m})
			e.markLibArray(st, obj)
			return SliceV{obj: obj, off: e.i64(0), len: e.i64(uint64(n)), cap: e.i64(uint64(n))}
		}
		return x
	}
	// pointer <-> unsafe.Pointer and friends
	switch x.(type) {
	case Ptr, FuncV, ChanV, MapV, IfaceV, *StructV, *ArrV, SliceV:
		return x
	}
	if _, ok := x.(Opaque); ok {
		return x
	}
	panic(engErr("convert %v -> %v (%T)", from, to, x))
}

// ---- indexing / slicing ----

func (e *Engine) boundsCheck(st *State, idx *Term, n *Term, what string) {
	// idx is an int64; must satisfy 0 <= idx < n  (unsigned compare covers negatives)
	if !e.decide(st, e.ts.Ult(idx, n)) {
		panic(goPanic{"index out of range (" + what + ")"})
	}
}

func toI64(ts *TermStore, t *Term, signed bool) *Term {
	if t.w == 64 {
		return t
	}
	if signed {
		return ts.SExt(t, 64)
	}
	return ts.ZExt(t, 64)
}

func (e *Engine) idxTerm(st *State, fr *Frame, v ssa.Value) *Term {
	t := e.val(st, fr, v).(*Term)
	_, signed, _ := intWidth(v.Type())
	return toI64(e.ts, t, signed)
}

// readElem reads arr[idx] where idx may be symbolic (in-bounds already checked).
func (e *Engine) readElem(st *State, arr *ArrV, idx *Term) Value {
	if idx.IsConst() {
		return arr.get(int(idx.val))
	}
	if v, ok := st.conc[idx.id]; ok {
		return arr.get(int(v))
	}
	// ite chain over written entries; only for term-valued arrays
	def, ok := arr.def.(*Term)
	if !ok {
		return arr.get(int(e.concrete(st, idx)))
	}
	res := def
	for _, k := range arr.keys() {
		v, ok := arr.m[k].(*Term)
		if !ok {
			return arr.get(int(e.concrete(st, idx)))
		}
		res = e.ts.Ite(e.ts.Eq(idx, e.i64(uint64(k))), v, res)
	}
	return res
}

func (e *Engine) indexAddr(st *State, fr *Frame, in *ssa.IndexAddr) Value {
	x := e.val(st, fr, in.X)
	idx := e.idxTerm(st, fr, in.Index)
	switch v := x.(type) {
	case SliceV:
		e.boundsCheck(st, idx, v.len, "slice")
		abs := e.ts.Bin(OpAdd, v.off, idx)
		if abs.IsConst() {
			return Ptr{obj: v.obj, path: v.path}.extend(int(abs.val))
		}
		if c, ok := st.conc[abs.id]; ok {
			return Ptr{obj: v.obj, path: v.path}.extend(int(c))
		}
		return Ptr{obj: v.obj, path: v.path, sym: abs}
	case Ptr: // *array
		if v.obj == 0 {
			panic(goPanic{"nil pointer dereference (array index)"})
		}
		n := in.X.Type().Underlying().(*types.Pointer).Elem().Underlying().(*types.Array).Len()
		e.boundsCheck(st, idx, e.i64(uint64(n)), "array")
		if idx.IsConst() {
			return v.extend(int(idx.val))
		}
		if c, ok := st.conc[idx.id]; ok {
			return v.extend(int(c))
		}
		v = e.concPtr(st, v)
		return Ptr{obj: v.obj, path: v.path, sym: idx}
	}
	panic(engErr("indexAddr on %T", x))
}

func (e *Engine) indexVal(st *State, fr *Frame, in *ssa.Index) Value {
	x := e.val(st, fr, in.X)
	idx := e.idxTerm(st, fr, in.Index)
	switch v := x.(type) {
	case *ArrV:
		e.boundsCheck(st, idx, e.i64(uint64(v.n)), "array")
		return e.readElem(st, v, idx)
	case *StrV:
		e.boundsCheck(st, idx, v.len, "string")
		return e.readElem(st, v.arr, e.ts.Bin(OpAdd, v.off, idx))
	}
	panic(engErr("index on %T", x))
}

func (e *Engine) sliceOp(st *State, fr *Frame, in *ssa.Slice) Value {
	ts := e.ts
	x := e.val(st, fr, in.X)
	var lo, hi, max *Term
	if in.Low != nil {
		lo = e.idxTerm(st, fr, in.Low)
	} else {
		lo = e.i64(0)
	}
	if in.High != nil {
		hi = e.idxTerm(st, fr, in.High)
	}
	if in.Max != nil {
		max = e.idxTerm(st, fr, in.Max)
	}
	chk := func(c *Term, what string) {
		if !e.decide(st, c) {
			panic(goPanic{"slice bounds out of range (" + what + ")"})
		}
	}
	switch v := x.(type) {
	case *StrV:
		if hi == nil {
			hi = v.len
		}
		chk(ts.Ule(hi, v.len), "string high")
		chk(ts.Ule(lo, hi), "string low")
		return &StrV{arr: v.arr, off: ts.Bin(OpAdd, v.off, lo), len: ts.Bin(OpSub, hi, lo)}
	case SliceV:
		if hi == nil {
			hi = v.len
		}
		if max == nil {
			max = v.cap
		} else {
			chk(ts.Ule(max, v.cap), "slice max")
		}
		chk(ts.Ule(hi, max), "slice high")
		chk(ts.Ule(lo, hi), "slice low")
		if v.obj == 0 {
			return v
		}
		return SliceV{obj: v.obj, path: v.path, off: ts.Bin(OpAdd, v.off, lo), len: ts.Bin(OpSub, hi, lo), cap: ts.Bin(OpSub, max, lo)}
	case Ptr: // *array
		if v.obj == 0 {
			panic(goPanic{"nil pointer dereference (slice of array)"})
		}
		if v.sym != nil {
			v = e.concPtr(st, v)
		}
		n := e.i64(uint64(in.X.Type().Underlying().(*types.Pointer).Elem().Underlying().(*types.Array).Len()))
		if hi == nil {
			hi = n
		}
		if max == nil {
			max = n
		} else {
			chk(ts.Ule(max, n), "array max")
		}
		chk(ts.Ule(hi, max), "array high")
		chk(ts.Ule(lo, hi), "array low")
		return SliceV{obj: v.obj, path: v.path, off: lo, len: ts.Bin(OpSub, hi, lo), cap: ts.Bin(OpSub, max, lo)}
	}
	panic(engErr("slice on %T", x))
}

// ---- maps ----

func (e *Engine) mapFind(st *State, md *MapData, k Value) int {
	for i, mk := range md.keys {
		if e.decide(st, e.valEq(st, mk, k)) {
			return i
		}
	}
	return -1
}

func (e *Engine) lookup(st *State, fr *Frame, in *ssa.Lookup) Value {
	x := e.val(st, fr, in.X)
	if s, ok := x.(*StrV); ok {
		idx := e.idxTerm(st, fr, in.Index)
		e.boundsCheck(st, idx, s.len, "string")
		return e.readElem(st, s.arr, e.ts.Bin(OpAdd, s.off, idx))
	}
	m := x.(MapV)
	k := e.val(st, fr, in.Index)
	vt := in.X.Type().Underlying().(*types.Map).Elem()
	var res Value
	found := false
	if m.obj != 0 {
		md := st.heap[m.obj].(*MapData)
		if i := e.mapFind(st, md, k); i >= 0 {
			res = md.vals[i]
			found = true
		}
	}
	if !found {
		res = e.zero(vt)
	}
	if in.CommaOk {
		return TupleV{res, e.ts.Bool(found)}
	}
	return res
}

func (e *Engine) rangeInit(st *State, x Value, t types.Type) Value {
	switch v := x.(type) {
	case MapV:
		if v.obj == 0 {
			return &IterV{}
		}
		md := st.heap[v.obj].(*MapData)
		n := len(md.keys)
		it := &IterV{}
		if n <= 1 || !e.cfg.MapOrders {
			it.keys = append([]Value(nil), md.keys...)
			it.vals = append([]Value(nil), md.vals...)
			return it
		}
		if n > 3 {
			panic(inconclusive{"range over map with more than 3 entries"})
		}
		perms := permutations(n)
		c := e.choose(st, len(perms), "maporder")
		for _, i := range perms[c] {
			it.keys = append(it.keys, md.keys[i])
			it.vals = append(it.vals, md.vals[i])
		}
		return it
	case *StrV:
		return &IterV{str: v}
	}
	panic(engErr("range over %T", x))
}

func permutations(n int) [][]int {
	if n == 1 {
		return [][]int{{0}}
	}
	var out [][]int
	for _, p := range permutations(n - 1) {
		for pos := 0; pos <= len(p); pos++ {
			q := append([]int(nil), p[:pos]...)
			q = append(q, n-1)
			q = append(q, p[pos:]...)
			out = append(out, q)
		}
	}
	return out
}

func (e *Engine) rangeNext(st *State, fr *Frame, in *ssa.Next) Value {
	it := e.val(st, fr, in.Iter).(*IterV)
	ts := e.ts
	if in.IsString {
		s := it.str
		n := e.concInt(st, s.len)
		if it.pos >= n {
			return TupleV{ts.False, e.i64(0), ts.BV(32, 0)}
		}
		b := s.arr.get(e.concInt(st, s.off) + it.pos).(*Term)
		// only ASCII supported: require b < 0x80 on this path
		if !e.decide(st, ts.Ult(b, ts.BV(8, 0x80))) {
			panic(inconclusive{"range over string with non-ASCII bytes"})
		}
		res := TupleV{ts.True, e.i64(uint64(it.pos)), ts.ZExt(b, 32)}
		e.setReg(fr, in.Iter.(*ssa.Range), &IterV{str: s, pos: it.pos + 1})
		return res
	}
	if it.pos >= len(it.keys) {
		mt := in.Iter.(*ssa.Range).X.Type().Underlying().(*types.Map)
		return TupleV{ts.False, e.zero(mt.Key()), e.zero(mt.Elem())}
	}
	res := TupleV{ts.True, it.keys[it.pos], it.vals[it.pos]}
	e.setReg(fr, in.Iter.(*ssa.Range), &IterV{keys: it.keys, vals: it.vals, pos: it.pos + 1})
	return res
}

// choose forks over n alternatives and returns the chosen index.
func (e *Engine) choose(st *State, n int, key string) int {
	if n == 1 {
		return 0
	}
	cnt := st.names["$choice"]
	name := fmt.Sprintf("$choice%d", cnt)
	v := e.ts.Var(name, 8)
	if c, ok := st.conc[v.id]; ok {
		st.names["$choice"] = cnt + 1
		return int(c)
	}
	vals := make([]uint64, n)
	for i := range vals {
		vals[i] = uint64(i)
	}
	panic(forkVals{v, vals})
}

// ---- type assertions ----

func (e *Engine) implements(dyn types.Type, iface *types.Interface) bool {
	return types.Implements(dyn, iface)
}

func (e *Engine) typeAssert(st *State, x IfaceV, in *ssa.TypeAssert) Value {
	ok := false
	var res Value
	if x.t != nil {
		if it, isI := in.AssertedType.Underlying().(*types.Interface); isI {
			if e.implements(x.t, it) {
				ok = true
				res = x
			}
		} else if types.Identical(x.t, in.AssertedType) {
			ok = true
			res = x.v
		}
	}
	if in.CommaOk {
		if !ok {
			res = e.zero(in.AssertedType)
		}
		return TupleV{res, e.ts.Bool(ok)}
	}
	if !ok {
		panic(goPanic{fmt.Sprintf("interface conversion: %v is not %v", x.t, in.AssertedType)})
	}
	return res
}

// loadPtr loads through a pointer whose last index may be symbolic.
func (e *Engine) loadPtr(st *State, p Ptr) Value {
	if p.sym == nil {
		return st.load(p)
	}
	arr := getPath(st.heap[p.obj], p.path).(*ArrV)
	return e.readElem(st, arr, p.sym)
}

// concPtr makes the pointer concrete (forking over the feasible index values).
func (e *Engine) concPtr(st *State, p Ptr) Ptr {
	if p.sym == nil {
		return p
	}
	i := e.concInt(st, p.sym)
	q := Ptr{obj: p.obj, path: p.path}
	return q.extend(i)
}

// ifaceWords models the in-memory representation of an interface value as [2]uintptr:
// word 0 identifies the dynamic type, word 1 the data (pointer identity for pointer-shaped
// values, a content hash for boxed values, which Go may or may not share).
func (e *Engine) ifaceWords(iv IfaceV) Value {
	w0, w1 := uint64(0), uint64(0)
	if iv.t != nil {
		w0 = e.typeID(iv.t)
		x := &hasher{h: fnv.New64a(), canon: map[int]uint64{}}
		switch v := iv.v.(type) {
		case Ptr:
			x.u64(uint64(v.obj))
			for _, p := range v.path {
				x.u64(uint64(p))
			}
		default:
			e.hashValue(x, v)
		}
		w1 = x.h.Sum64() | 1
	}
	return &ArrV{n: 2, def: e.i64(0), m: map[int]Value{0: e.i64(w0), 1: e.i64(w1)}}
}
