package drpcmanager

import (
	"storj.io/drpc/drpcmetadata"
	"storj.io/drpc/drpcstream"
	"storj.io/drpc/drpcwire"
	vrt "storj.io/drpc/internal/verifrt"
	"storj.io/drpc/internal/verifrt/hx"
)

// VerifH_ServerMetadataScoping: the server receives up to two InvokeMetadata packets (on
// symbolic, non-decreasing stream ids, the first possibly belonging to an RPC that was
// abandoned before its invoke) followed by an Invoke; the handler context must carry
// metadata iff the most recent metadata packet was sent on the invoke's stream id, and
// then exactly that map. A second RPC without metadata must see none.
func VerifH_ServerMetadataScoping() {
	tr := &hx.Transport{}
	m := NewWithOptions(tr, Options{})
	nmeta := vrt.Int("nmeta")
	vrt.Assume(nmeta >= 0 && nmeta <= 2)
	a := uint64(vrt.U8("sidA"))
	b := uint64(vrt.U8("sidB"))
	c := uint64(vrt.U8("sidC"))
	vrt.Assume(a >= 1 && a <= b && b <= c && c <= 3)
	va := vrt.Str("valA", 1)
	vb := vrt.Str("valB", 1)
	encA, _ := drpcmetadata.Encode(nil, map[string]string{"k": va})
	encB, _ := drpcmetadata.Encode(nil, map[string]string{"k": vb, "b": "only-b"})
	mid := map[uint64]uint64{}
	next := func(s uint64) uint64 { mid[s]++; return mid[s] }
	if nmeta >= 1 {
		tr.Feed(hx.Pkt(drpcwire.KindInvokeMetadata, a, next(a), false, encA))
	}
	if nmeta >= 2 {
		tr.Feed(hx.Pkt(drpcwire.KindInvokeMetadata, b, next(b), false, encB))
	}
	tr.Feed(hx.Pkt(drpcwire.KindInvoke, c, next(c), false, []byte("rpc")))
	tr.Feed(hx.Pkt(drpcwire.KindClose, c, next(c), false, nil))
	tr.Feed(hx.Pkt(drpcwire.KindInvoke, c+1, 1, false, []byte("rpc2")))

	var s1, s2 *drpcstream.Stream
	var e1, e2 error
	done := false
	go func() {
		s1, _, e1 = m.NewServerStream(hx.NewCtx())
		if e1 == nil {
			s2, _, e2 = m.NewServerStream(hx.NewCtx())
		}
		done = true
	}()
	vrt.Quiesce()
	vrt.Assert(done && e1 == nil && e2 == nil, "both RPCs reach NewServerStream")
	if !done || e1 != nil || e2 != nil {
		return
	}
	md, has := drpcmetadata.Get(s1.Context())
	lastID, lastN := uint64(0), 0
	if nmeta >= 1 {
		lastID, lastN = a, 1
	}
	if nmeta >= 2 {
		lastID, lastN = b, 2
	}
	if lastN != 0 && lastID == c {
		vrt.Assert(has, "metadata sent on the invoke's stream is visible to its handler")
		if lastN == 1 {
			vrt.Assert(len(md) == 1 && md["k"] == va, "exactly the attached map (A)")
		} else {
			vrt.Assert(len(md) == 2 && md["k"] == vb && md["b"] == "only-b", "exactly the attached map (B)")
		}
		vrt.Cover("metadata-attached")
	} else {
		vrt.Assert(!has || len(md) == 0, "metadata of another (abandoned) call is not visible")
		vrt.Cover("metadata-not-attached")
	}
	md2, has2 := drpcmetadata.Get(s2.Context())
	vrt.Assert(!has2 || len(md2) == 0, "the next call sees no metadata of the previous one")
	m.Close()
}
