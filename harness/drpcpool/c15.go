package drpcpool

import (
	"context"
	"time"

	"storj.io/drpc"
	vrt "storj.io/drpc/internal/verifrt"
	"storj.io/drpc/internal/verifrt/hx"
)

// fakeConn is a pool connection with observable state.
type fakeConn struct {
	id        int
	closedCh  chan struct{}
	unblocked chan struct{}
	isClosed  bool
	closes    int
	slowClose bool // Close parks until released before it takes effect (expiry "fired but not completed")
	release   bool
}

func newFakeConn(id int) *fakeConn {
	u := make(chan struct{})
	close(u)
	return &fakeConn{id: id, closedCh: make(chan struct{}), unblocked: u}
}

func (c *fakeConn) Close() error {
	c.closes++
	if c.slowClose && vrt.ThreadID() != 0 {
		vrt.WaitFor(&c.release) // only the expiry callback's Close is slow
	}
	if !c.isClosed {
		c.isClosed = true
		close(c.closedCh)
	}
	return nil
}
func (c *fakeConn) Closed() <-chan struct{}    { return c.closedCh }
func (c *fakeConn) Unblocked() <-chan struct{} { return c.unblocked }
func (c *fakeConn) Invoke(ctx context.Context, rpc string, enc drpc.Encoding, in, out drpc.Message) error {
	return nil
}
func (c *fakeConn) NewStream(ctx context.Context, rpc string, enc drpc.Encoding) (drpc.Stream, error) {
	return nil, nil
}
func (c *fakeConn) block()   { c.unblocked = make(chan struct{}) }
func (c *fakeConn) unblock() { u := make(chan struct{}); close(u); c.unblocked = u }

const (
	gOutside = iota // owned by the application
	gCached
)

const nConns = 4

type ghost struct {
	status [nConns]int
	key    [nConns]uint8
}

// checkStructure walks the pool's lists and compares them with the ghost state.
func checkStructure(p *Pool[uint8, *fakeConn], g *ghost, conns []*fakeConn) {
	// global order list
	n := 0
	var seen [nConns]bool
	for ent := p.order.head; ent != nil; ent = ent.global.next {
		n++
		vrt.Assert(n <= nConns, "global list is acyclic")
		if n > nConns {
			return
		}
		id := ent.val.id
		vrt.Assert(!seen[id], "a connection is cached at most once")
		seen[id] = true
		vrt.Assert(g.status[id] == gCached && g.key[id] == ent.key, "every cached entry is a connection that was put and not yet taken/evicted")
		// reachable through its key's list
		local := p.entries[ent.key]
		vrt.Assert(local != nil, "every cached entry's key has a list (Take can reach it)")
		if local != nil {
			found := false
			m := 0
			for e := local.head; e != nil; e = e.local.next {
				m++
				if m > nConns {
					break
				}
				if e == ent {
					found = true
				}
			}
			vrt.Assert(found, "every cached entry is linked in its key's list")
		}
	}
	vrt.Assert(p.order.count == n, "global count equals the number of linked entries")
	for id := 0; id < nConns; id++ {
		vrt.Assert(seen[id] == (g.status[id] == gCached), "exactly the connections the ghost state calls cached are cached")
	}
	// per-key lists
	total := 0
	for k := uint8(0); k < 2; k++ {
		local := p.entries[k]
		if local == nil {
			continue
		}
		m := 0
		for e := local.head; e != nil; e = e.local.next {
			m++
			if m > nConns {
				break
			}
			vrt.Assert(e.key == k, "key list holds entries of its key")
		}
		vrt.Assert(local.count == m, "per-key count equals the number of linked entries")
		if p.opts.KeyCapacity > 0 {
			vrt.Assert(m <= p.opts.KeyCapacity, "per-key capacity respected")
		}
		total += m
	}
	vrt.Assert(total == n, "key lists and global list hold the same entries")
	if p.opts.Capacity > 0 {
		vrt.Assert(n <= p.opts.Capacity, "total capacity respected")
	}
	if p.opts.Capacity < 0 || p.opts.KeyCapacity < 0 {
		vrt.Assert(n == 0, "negative capacity caches nothing")
	}
	for id := 0; id < nConns; id++ {
		vrt.Assert(conns[id].closes <= 1 || g.status[id] == gOutside, "a cached connection has not been closed twice")
	}
}

// VerifH_PoolHistories: every sequence of `depth` operations {Put, Take, Close, close a
// connection, block/unblock a connection} over 2 keys and 4 connections, for all capacity
// settings in [-1,2]^2, without expiration.
func VerifH_PoolHistories() {
	depth := vrt.Param("depth", 3)
	capT := vrt.Int("capacity")
	capK := vrt.Int("keyCapacity")
	vrt.Assume(capT >= -1 && capT <= 2 && capK >= -1 && capK <= 2)
	p := New[uint8, *fakeConn](Options{Capacity: capT, KeyCapacity: capK})
	conns := make([]*fakeConn, nConns)
	for i := range conns {
		conns[i] = newFakeConn(i)
	}
	g := &ghost{}
	for step := 0; step < depth; step++ {
		op := vrt.Int("op")
		vrt.Assume(op >= 0 && op <= 5)
		switch op {
		case 0: // Put
			i := vrt.Int("conn")
			vrt.Assume(i >= 0 && i < nConns)
			k := vrt.U8("key")
			vrt.Assume(k < 2)
			vrt.Assume(g.status[i] == gOutside) // the application owns it
			c := conns[i]
			wasClosed := c.isClosed
			before := c.closes
			var cachedBefore [nConns]bool
			for x := 0; x < nConns; x++ {
				cachedBefore[x] = g.status[x] == gCached
			}
			p.Put(k, c)
			if capT < 0 || capK < 0 {
				vrt.Assert(c.closes == before+1, "negative capacity: Put closes the connection")
			} else if wasClosed {
				vrt.Assert(c.closes == before, "a closed connection is dropped, not closed again")
			} else {
				g.status[i], g.key[i] = gCached, k
			}
			// evictions: whatever is no longer linked was closed by the pool exactly now
			for x := 0; x < nConns; x++ {
				if !cachedBefore[x] {
					continue
				}
				still := false
				for ent := p.order.head; ent != nil; ent = ent.global.next {
					if ent.val == conns[x] {
						still = true
					}
				}
				if !still {
					vrt.Assert(conns[x].closes >= 1, "an evicted connection is closed by the pool (never neither handed out nor closed)")
					g.status[x] = gOutside
				}
			}
			vrt.Cover("pool-put")
		case 1: // Take
			k := vrt.U8("key")
			vrt.Assume(k < 2)
			// is there an eligible connection?
			eligible := false
			for x := 0; x < nConns; x++ {
				if g.status[x] == gCached && g.key[x] == k && !conns[x].isClosed && closed(conns[x].unblocked) {
					eligible = true
				}
			}
			c, ok := p.Take(k)
			if ok {
				vrt.Assert(c != nil && g.status[c.id] == gCached && g.key[c.id] == k, "Take returns a connection cached under that key")
				vrt.Assert(!c.isClosed, "Take never returns a closed connection")
				vrt.Assert(closed(c.unblocked), "Take never returns a blocked connection")
				g.status[c.id] = gOutside
				vrt.Cover("pool-take-hit")
			} else {
				vrt.Assert(!eligible, "Take finds a cached, open, unblocked connection of the key if there is one")
				vrt.Cover("pool-take-miss")
			}
			// closed (dead) connections that Take came across before its result were unlinked
			// and dropped; those behind the returned entry stay cached until a later Take/Put
			for x := 0; x < nConns; x++ {
				if g.status[x] == gCached && g.key[x] == k && conns[x].isClosed && closed(conns[x].unblocked) {
					still := false
					for ent := p.order.head; ent != nil; ent = ent.global.next {
						if ent.val == conns[x] {
							still = true
						}
					}
					if !still {
						g.status[x] = gOutside
					}
				}
			}
		case 2: // Close the pool
			var was [nConns]bool
			for x := 0; x < nConns; x++ {
				was[x] = g.status[x] == gCached
			}
			vrt.Assert(p.Close() == nil, "Close succeeds")
			for x := 0; x < nConns; x++ {
				if was[x] {
					vrt.Assert(conns[x].isClosed, "Close closes every cached connection")
					g.status[x] = gOutside
				}
			}
			vrt.Cover("pool-close")
		case 3: // a connection dies
			i := vrt.Int("conn")
			vrt.Assume(i >= 0 && i < nConns && !conns[i].isClosed)
			conns[i].isClosed = true
			close(conns[i].closedCh)
		case 4:
			i := vrt.Int("conn")
			vrt.Assume(i >= 0 && i < nConns)
			conns[i].block()
		case 5:
			i := vrt.Int("conn")
			vrt.Assume(i >= 0 && i < nConns)
			conns[i].unblock()
		}
		checkStructure(p, g, conns)
	}
	vrt.Cover("pool-histories-end")
}

// VerifH_PoolExpiry: Expiration > 0. Connections are put, their expiry timers may fire at
// any moment and the callback's Close has a scheduling point (fired but not completed);
// the main thread then performs up to two of {Take, Put (evicting), Close}. A connection
// whose expiry has started is never handed out; every connection is closed at most once by
// the pool side; the structure stays consistent (counts never negative, capacity kept).
func VerifH_PoolExpiry() {
	capT := vrt.Int("capacity")
	vrt.Assume(capT >= 0 && capT <= 2)
	capK := vrt.Int("keyCapacity")
	vrt.Assume(capK >= 0 && capK <= 1)
	p := New[uint8, *fakeConn](Options{Capacity: capT, KeyCapacity: capK, Expiration: time.Second})
	conns := make([]*fakeConn, 3)
	for i := range conns {
		conns[i] = newFakeConn(i)
		conns[i].slowClose = true
	}
	p.Put(0, conns[0])
	nops := vrt.Param("ops", 2)
	var taken *fakeConn
	for step := 0; step < nops; step++ {
		op := vrt.Int("op")
		vrt.Assume(op >= 0 && op <= 2)
		switch op {
		case 0:
			c, ok := p.Take(0)
			if ok {
				vrt.Assert(c.closes == 0, "a connection whose expiry has started is never handed out")
				taken = c
				vrt.Cover("expiry-take-hit")
			}
		case 1:
			i := 1 + step
			if i < len(conns) {
				p.Put(uint8(vrt.Int("key")&1), conns[i])
			}
		case 2:
			for _, c := range conns {
				c.release = true
			}
			_ = p.Close()
		}
	}
	for _, c := range conns {
		c.release = true
	}
	vrt.Quiesce() // all timers that will fire have fired and completed
	if taken != nil {
		vrt.Assert(taken.closes == 0 && !taken.isClosed, "a handed-out connection is not closed by the pool afterwards")
	}
	n := 0
	for ent := p.order.head; ent != nil; ent = ent.global.next {
		n++
		if n > 4 {
			break
		}
	}
	vrt.Assert(p.order.count == n && n <= 4, "global count equals the number of linked entries (never negative)")
	if capT > 0 {
		vrt.Assert(n <= capT, "total capacity respected")
	}
	for k := uint8(0); k < 2; k++ {
		if local := p.entries[k]; local != nil {
			m := 0
			for e := local.head; e != nil; e = e.local.next {
				m++
				if m > 4 {
					break
				}
			}
			vrt.Assert(local.count == m, "per-key count equals the number of linked entries")
			if capK > 0 {
				vrt.Assert(m <= capK, "per-key capacity respected")
			}
		}
	}
	for _, c := range conns {
		vrt.Assert(c.closes <= 1, "every connection is closed at most once (by the expiry callback or by the pool, never both)")
	}
	vrt.Cover("expiry-end")
}

// ---- poolConn wrappers ----

type vhStream struct {
	ctx *vhStreamCtx
}

type vhStreamCtx struct {
	context.Context
	done chan struct{}
}

func (c *vhStreamCtx) Done() <-chan struct{} { return c.done }
func (c *vhStreamCtx) Err() error            { return nil }

func (s *vhStream) Context() context.Context                          { return s.ctx }
func (s *vhStream) MsgSend(msg drpc.Message, enc drpc.Encoding) error { return nil }
func (s *vhStream) MsgRecv(msg drpc.Message, enc drpc.Encoding) error { return nil }
func (s *vhStream) CloseSend() error                                  { return nil }
func (s *vhStream) Close() error                                      { return nil }

// vhUseConn is a pool connection that records concurrent use.
type vhUseConn struct {
	fakeConn
	inUse    int
	maxInUse int
	invokes  int
	gate     *bool
	streams  []*vhStream
}

func (c *vhUseConn) Invoke(ctx context.Context, rpc string, enc drpc.Encoding, in, out drpc.Message) error {
	c.inUse++
	if c.inUse > c.maxInUse {
		c.maxInUse = c.inUse
	}
	c.invokes++
	if c.gate != nil {
		vrt.WaitFor(c.gate)
	}
	c.inUse--
	return nil
}

func (c *vhUseConn) NewStream(ctx context.Context, rpc string, enc drpc.Encoding) (drpc.Stream, error) {
	c.inUse++
	if c.inUse > c.maxInUse {
		c.maxInUse = c.inUse
	}
	s := &vhStream{ctx: &vhStreamCtx{Context: ctx, done: make(chan struct{})}}
	c.streams = append(c.streams, s)
	return s, nil
}

type vhBgCtx struct{}

func (vhBgCtx) Deadline() (time.Time, bool)       { return time.Time{}, false }
func (vhBgCtx) Done() <-chan struct{}             { return nil }
func (vhBgCtx) Err() error                        { return nil }
func (vhBgCtx) Value(key interface{}) interface{} { return nil }

// VerifH_PoolConnWrappers: two callers use pooled connection handles of the same key
// concurrently (one unary call parked inside its connection, one more unary call or a
// stream), then sequentially again. A dialled connection is never used by two callers at
// once, connections are dialled only when none is cached, returned to the pool after use
// (after the stream's context is done for streams) and the wrapper's Done fires only
// after the connection is back in the pool.
func VerifH_PoolConnWrappers() {
	p := New[uint8, *vhUseConn](Options{Capacity: 2, KeyCapacity: 2})
	gate := false
	dials := 0
	var conns []*vhUseConn
	dial := func(ctx context.Context, key uint8) (*vhUseConn, error) {
		dials++
		c := &vhUseConn{gate: &gate}
		c.closedCh = make(chan struct{})
		u := make(chan struct{})
		close(u)
		c.unblocked = u
		c.id = dials
		conns = append(conns, c)
		return c, nil
	}
	h1 := p.Get(vhBgCtx{}, 7, dial)
	h2 := p.Get(vhBgCtx{}, 7, dial)
	second := vrt.Choice("second", 2)
	callerCtx := hx.NewCtx()
	d1, d2 := false, false
	var st drpc.Stream
	go func() { _ = h1.Invoke(vhBgCtx{}, "a", nil, nil, nil); d1 = true }()
	go func() {
		if second == 0 {
			_ = h2.Invoke(vhBgCtx{}, "b", nil, nil, nil)
		} else {
			st, _ = h2.NewStream(callerCtx, "s", nil)
		}
		d2 = true
	}()
	vrt.Quiesce()
	vrt.Assert(dials == 2, "two concurrent callers get two connections (none is shared while in use)")
	gate = true
	vrt.Quiesce()
	vrt.Assert(d1 && d2, "calls return")
	for _, c := range conns {
		vrt.Assert(c.maxInUse <= 1, "a pooled connection is never handed to two callers at once")
	}
	if second == 1 && st != nil && len(conns) > 0 {
		// the stream's connection is not in the pool while the stream is alive
		var sc *vhUseConn
		for _, c := range conns {
			if len(c.streams) > 0 {
				sc = c
			}
		}
		cached := 0
		for ent := p.order.head; ent != nil; ent = ent.global.next {
			cached++
			vrt.Assert(ent.val != sc, "a connection with a live stream is not cached")
		}
		wrapDone := false
		select {
		case <-st.Context().Done():
			wrapDone = true
		default:
		}
		vrt.Assert(!wrapDone, "the stream wrapper's context is not done while the stream is alive")
		if vrt.Bool("callerCancels") {
			// the caller's context is cancelled; the underlying stream (whose context is its
			// own, as with drpcstream) is still being torn down
			callerCtx.Cancel(context.Canceled)
			vrt.Quiesce()
			for ent := p.order.head; ent != nil; ent = ent.global.next {
				vrt.Assert(ent.val != sc, "a connection whose stream is still alive is not cached, also after the caller's context was cancelled")
			}
			vrt.Assert(!hx.IsClosedCh(st.Context().Done()), "the stream wrapper's Done does not fire before the underlying stream has ended")
			before := dials
			h3 := p.Get(vhBgCtx{}, 7, dial)
			st3, _ := h3.NewStream(vhBgCtx{}, "t", nil)
			for _, c := range conns {
				vrt.Assert(c.maxInUse <= 1, "a connection carrying a live stream is not handed to another caller")
			}
			if st3 != nil {
				// end that stream again so that the rest of the scenario is as before
				for _, c := range conns {
					for _, x := range c.streams {
						if x != sc.streams[0] && !hx.IsClosedCh(x.ctx.done) {
							close(x.ctx.done)
							c.inUse--
						}
					}
				}
				vrt.Quiesce()
			}
			_ = before
			vrt.Cover("poolconn-caller-cancel")
		}
		close(sc.streams[0].ctx.done) // the stream ends
		sc.inUse--
		vrt.Quiesce()
		back := false
		for ent := p.order.head; ent != nil; ent = ent.global.next {
			if ent.val == sc {
				back = true
			}
		}
		select {
		case <-st.Context().Done():
			wrapDone = true
		default:
		}
		vrt.Assert(back && wrapDone, "after the stream ends its connection is back in the pool and only then the wrapper's Done fires")
		vrt.Cover("poolconn-stream")
	}
	// sequential reuse: no new dial
	before := dials
	_ = h1.Invoke(vhBgCtx{}, "c", nil, nil, nil)
	vrt.Assert(dials == before, "a cached connection is reused instead of dialling")
	vrt.Assert(h1.Close() == nil, "handle closes")
	vrt.Assert(h1.Invoke(vhBgCtx{}, "d", nil, nil, nil) != nil, "a closed handle refuses calls")
	vrt.Assert(vrt.Unfinished() == 0, "the pool's stream monitor goroutines have ended")
	vrt.Cover("poolconn-end")
}
