// Package hx holds scripted environment objects shared by the manager-level harnesses.
package hx

import (
	"context"
	"io"
	"time"

	"storj.io/drpc"
	"storj.io/drpc/drpcwire"
	vrt "storj.io/drpc/internal/verifrt"
)

type Err struct{ S string }

func (e *Err) Error() string { return e.S }

var (
	ErrTransportClosed error = &Err{S: "transport closed"}
	ErrTransportFault  error = &Err{S: "transport fault"}
)

// Transport is the scripted transport: Read blocks until bytes were fed (or the transport is
// closed / faulted); Write records bytes, optionally parking until released; Close makes
// every pending and later Read/Write fail.
type Transport struct {
	In             []byte
	CanRead        bool
	EOF            bool
	Closed         bool
	Closes         int
	Out            []byte
	Writes         int
	Gate           *bool // when set, writes park until *gate
	WParked        bool
	FaultRead      int // fail the k-th Read (1-based), 0 = never
	FaultWrite     int
	Reads          int
	InWrite        bool
	Reenter        bool
	InRead         bool
	RReenter       bool
	Dead           bool // after a fault every call fails
	Chunk          int  // when > 0, a Read returns at most this many bytes
	WriteOnlyFault bool // a write fault leaves the read side healthy (only writes fail from then on)
	WDead          bool
	CloseGate      *bool // when set, Close parks (after failing pending I/O) until *CloseGate
	CloseErr       error // what Close returns
	InClose        bool
	CloseRet       bool // a Close call has returned
}

func (t *Transport) Feed(b []byte) {
	t.In = append(t.In, b...)
	t.CanRead = true
}

func (t *Transport) Read(p []byte) (int, error) {
	if t.InRead {
		t.RReenter = true
	}
	t.InRead = true
	vrt.WaitFor(&t.CanRead)
	t.InRead = false
	t.Reads++
	if t.Closed {
		return 0, ErrTransportClosed
	}
	if t.Dead || (t.FaultRead != 0 && t.Reads >= t.FaultRead) {
		t.Dead = true
		t.CanRead = true
		if t.Gate != nil {
			*t.Gate = true
		}
		return 0, ErrTransportFault
	}
	if len(t.In) == 0 {
		return 0, io.EOF
	}
	lim := len(p)
	if t.Chunk > 0 && t.Chunk < lim {
		lim = t.Chunk
	}
	n := copy(p[:lim], t.In)
	t.In = t.In[n:]
	if len(t.In) == 0 && !t.EOF {
		t.CanRead = false
	}
	return n, nil
}

func (t *Transport) Write(p []byte) (int, error) {
	if t.InWrite {
		t.Reenter = true
	}
	t.InWrite = true
	t.Writes++
	if t.Gate != nil && !t.Closed && !t.Dead {
		t.WParked = true
		vrt.WaitFor(t.Gate)
		t.WParked = false
	}
	t.InWrite = false
	if t.Closed {
		return 0, ErrTransportClosed
	}
	if t.WriteOnlyFault && (t.WDead || (t.FaultWrite != 0 && t.Writes >= t.FaultWrite)) {
		t.WDead = true
		return 0, ErrTransportFault
	}
	if t.Dead || (t.FaultWrite != 0 && t.Writes >= t.FaultWrite) {
		t.Dead = true
		t.CanRead = true
		return 0, ErrTransportFault
	}
	t.Out = append(t.Out, p...)
	return len(p), nil
}

func (t *Transport) Close() error {
	t.Closes++
	t.Closed = true
	t.CanRead = true
	if t.Gate != nil {
		*t.Gate = true
	}
	if t.CloseGate != nil {
		t.InClose = true
		vrt.WaitFor(t.CloseGate)
		t.InClose = false
	}
	t.CloseRet = true
	return t.CloseErr
}

var _ drpc.Transport = (*Transport)(nil)

// Ctx is a minimal cancellable context for harnesses.
type Ctx struct {
	done chan struct{}
	err  error
	Vals map[interface{}]interface{}
}

func NewCtx() *Ctx { return &Ctx{done: make(chan struct{})} }

func (c *Ctx) Deadline() (time.Time, bool) { return time.Time{}, false }
func (c *Ctx) Done() <-chan struct{}       { return c.done }
func (c *Ctx) Err() error                  { return c.err }
func (c *Ctx) Value(key interface{}) interface{} {
	if c.Vals == nil {
		return nil
	}
	return c.Vals[key]
}
func (c *Ctx) Cancel(err error) {
	c.err = err
	close(c.done)
}

var _ context.Context = (*Ctx)(nil)

type ByteEnc struct{}

func (ByteEnc) Marshal(msg drpc.Message) ([]byte, error) { return *(msg.(*[]byte)), nil }
func (ByteEnc) Unmarshal(buf []byte, msg drpc.Message) error {
	*(msg.(*[]byte)) = append([]byte(nil), buf...)
	return nil
}

func Pkt(kind drpcwire.Kind, sid, mid uint64, control bool, data []byte) []byte {
	return drpcwire.AppendFrame(nil, drpcwire.Frame{ID: drpcwire.ID{Stream: sid, Message: mid}, Kind: kind, Done: true, Control: control, Data: data})
}

func IsClosedCh(ch <-chan struct{}) bool {
	select {
	case <-ch:
		return true
	default:
		return false
	}
}

// parsedOut parses everything written to the transport into packets (single-frame packets
// as the stream layer emits with the default split size for small payloads).
type OutPkt struct {
	Kind    drpcwire.Kind
	Sid     uint64
	Mid     uint64
	Control bool
	Data    []byte
}

func ParseOut(b []byte) (pkts []OutPkt, ok bool) {
	for len(b) > 0 {
		rem, fr, good, err := drpcwire.ParseFrame(b)
		if !good || err != nil {
			return pkts, false
		}
		pkts = append(pkts, OutPkt{fr.Kind, fr.ID.Stream, fr.ID.Message, fr.Control, fr.Data})
		b = rem
	}
	return pkts, true
}

// Pipe returns two connected scripted transports: what one end writes becomes readable at
// the other; Close of either end makes both ends' pending and later calls fail (EOF on the
// peer's reads).
func Pipe() (*PipeEnd, *PipeEnd) {
	a, b := &PipeEnd{}, &PipeEnd{}
	a.peer, b.peer = b, a
	return a, b
}

// PipeEnd is one end of an in-memory duplex byte pipe (unbounded buffering: writes never block).
type PipeEnd struct {
	peer    *PipeEnd
	in      []byte
	CanRead bool
	Closed  bool
	Closes  int
	Written []byte
}

func (p *PipeEnd) Read(b []byte) (int, error) {
	vrt.WaitFor(&p.CanRead)
	if p.Closed {
		return 0, ErrTransportClosed
	}
	if len(p.in) == 0 {
		return 0, io.EOF // the peer went away
	}
	n := copy(b, p.in)
	p.in = p.in[n:]
	if len(p.in) == 0 && !p.peer.Closed {
		p.CanRead = false
	}
	return n, nil
}

func (p *PipeEnd) Write(b []byte) (int, error) {
	if p.Closed || p.peer.Closed {
		return 0, ErrTransportClosed
	}
	p.Written = append(p.Written, b...)
	p.peer.in = append(p.peer.in, b...)
	p.peer.CanRead = true
	return len(b), nil
}

func (p *PipeEnd) Close() error {
	p.Closes++
	p.Closed = true
	p.CanRead = true
	p.peer.CanRead = true
	return nil
}
