package drpcstream

import (
	"context"

	"storj.io/drpc/drpcwire"
	vrt "storj.io/drpc/internal/verifrt"
)

const (
	aHPError = iota
	aHPCancel
	aCancel
	aHPClose
	aHPCloseSend
	aClose
	aCloseSend
	aSendError
	aSendCancel
	aMsgSend2
	numAOps
)

// VerifH_StreamParkedWrite: thread W is inside MsgSend (3 frames, each flushed on its own)
// and parked in the transport on its first write; thread A then issues one operation from
// the alphabet; the transport is released afterwards. Checked at both quiescent points.
func VerifH_StreamParkedWrite() {
	sid := uint64(1)
	gate := false
	tr := &recTransport{gate: &gate}
	wr := drpcwire.NewWriter(tr, 1) // every frame is flushed on its own
	s := NewWithOptions(context.Background(), sid, wr, Options{SplitSize: 1})
	tr.afterTerm = s
	aop := vrt.Int("aop")
	vrt.Assume(aop >= 0 && aop < numAOps)

	msg := vrt.BytesN("msg", 3)
	var wErr, aErr error
	var wDone, aDone, aBusy bool
	rawW := vrt.Bool("writerUsesRawWrite")
	go func() {
		if rawW {
			wErr = s.RawWrite(drpcwire.KindMessage, msg)
		} else {
			wErr = s.MsgSend(&msg, byteEnc{})
		}
		wDone = true
	}()
	go func() {
		vrt.WaitFor(&tr.parked)
		switch aop {
		case aHPError:
			aErr = s.HandlePacket(drpcwire.Packet{ID: drpcwire.ID{Stream: sid, Message: 1}, Kind: drpcwire.KindError, Data: []byte{0, 0, 0, 0, 0, 0, 0, 7, 'x'}})
		case aHPCancel:
			aErr = s.HandlePacket(drpcwire.Packet{ID: drpcwire.ID{Stream: sid, Message: 1}, Kind: drpcwire.KindCancel, Control: true})
		case aCancel:
			s.Cancel(context.Canceled)
		case aHPClose:
			aErr = s.HandlePacket(drpcwire.Packet{ID: drpcwire.ID{Stream: sid, Message: 1}, Kind: drpcwire.KindClose})
		case aHPCloseSend:
			aErr = s.HandlePacket(drpcwire.Packet{ID: drpcwire.ID{Stream: sid, Message: 1}, Kind: drpcwire.KindCloseSend})
		case aClose:
			aErr = s.Close()
		case aCloseSend:
			aErr = s.CloseSend()
		case aSendError:
			aErr = s.SendError(&appErr{msg: "e", code: 5})
		case aSendCancel:
			aBusy, aErr = s.SendCancel(context.Canceled)
		case aMsgSend2:
			m2 := []byte{9}
			aErr = s.MsgSend(&m2, byteEnc{})
		}
		aDone = true
	}()

	// ---- first quiescent point: W parked in the transport ----
	vrt.Quiesce()
	vrt.Assert(tr.parked && !wDone, "W is parked inside the transport write")
	needsWrite := aop == aClose || aop == aCloseSend || aop == aSendError || aop == aMsgSend2
	vrt.Assert(aDone == !needsWrite, "exactly the operations that must wait for the in-flight write are blocked")
	vrt.Assert(!s.IsFinished(), "not finished while a write is in flight")
	doneCtx := false
	select {
	case <-s.Context().Done():
		doneCtx = true
	default:
	}
	vrt.Assert(!doneCtx, "context not done while a write is in flight")
	terminating := aop == aHPError || aop == aHPCancel || aop == aCancel || aop == aHPClose
	vrt.Assert(s.IsTerminated() == terminating, "terminated (not finished) as soon as the terminating event is processed")
	if aop == aSendCancel {
		vrt.Assert(aBusy && aErr == nil, "SendCancel reports busy while a write is in flight")
	}
	vrt.Cover("parked-quiescent-1")

	// ---- release the transport ----
	gate = true
	vrt.Quiesce()
	vrt.Assert(wDone && aDone, "everything returns once the transport lets go")
	vrt.Assert(!tr.reenter, "transport never sees two writes in flight")
	vrt.Assert(!tr.lateWrite, "no write starts after the stream reported finished")

	r := &refStream{}
	switch aop {
	case aHPError, aHPCancel, aCancel, aHPClose:
		// the send side was closed under W: W stops after the frame in flight
		if aop == aHPClose {
			vrt.Assert(classify(wErr) == cRemoteClosed, "interrupted send reports the remote close")
		} else {
			vrt.Assert(classify(wErr) == cEOF || (aop == aCancel && classify(wErr) == cCanceled), "interrupted send reports end-of-stream")
		}
		vrt.Assert(tr.writes == 1, "nothing is emitted after termination except the frame already in flight")
		vrt.Assert(s.IsFinished(), "finished once the in-flight write returned")
		vrt.Cover("parked-interrupted")
	case aHPCloseSend:
		vrt.Assert(classify(wErr) == cNil, "remote half-close does not disturb the send")
		r.emit(drpcwire.KindMessage, false, msg)
		vrt.Assert(!s.IsTerminated(), "stream stays open")
	case aSendCancel:
		vrt.Assert(classify(wErr) == cNil, "busy SendCancel changes nothing")
		r.emit(drpcwire.KindMessage, false, msg)
	case aClose:
		vrt.Assert(classify(wErr) == cNil && classify(aErr) == cNil, "Close waits for the send, both succeed")
		r.emit(drpcwire.KindMessage, false, msg)
		r.emit(drpcwire.KindClose, false, nil)
		vrt.Assert(s.IsFinished(), "finished after Close")
	case aCloseSend:
		vrt.Assert(classify(wErr) == cNil && classify(aErr) == cNil, "CloseSend waits for the send, both succeed")
		r.emit(drpcwire.KindMessage, false, msg)
		r.emit(drpcwire.KindCloseSend, false, nil)
	case aSendError:
		vrt.Assert(classify(wErr) == cNil && classify(aErr) == cNil, "SendError waits for the send, both succeed")
		r.emit(drpcwire.KindMessage, false, msg)
		r.emit(drpcwire.KindError, false, []byte{0, 0, 0, 0, 0, 0, 0, 5, 'e'})
		vrt.Assert(s.IsFinished(), "finished after SendError")
	case aMsgSend2:
		vrt.Assert(classify(wErr) == cNil && classify(aErr) == cNil, "second sender waits, both succeed")
		r.emit(drpcwire.KindMessage, false, msg)
		r.emit(drpcwire.KindMessage, false, []byte{9})
	}
	if len(r.out) > 0 {
		checkLog(tr.log, sid, r.out)
	}
	vrt.Cover("parked-end")
}

// VerifH_PacketsWhileTerminating: a terminating call (Close / SendError / SendCancel) is
// parked in the transport writing its final packet: the stream is terminated but not yet
// finished. Packets from the peer arriving in that window (any kind class) must be ignored:
// no error returned to the manager, no signal changed, the parked call's result unchanged;
// the stream becomes finished exactly when the write returns.
func VerifH_PacketsWhileTerminating() {
	sid := uint64(1)
	gate := false
	tr := &recTransport{gate: &gate}
	s := NewWithOptions(context.Background(), sid, drpcwire.NewWriter(tr, 1), Options{})
	tr.afterTerm = s
	term := vrt.Choice("terminator", 3)
	fails := vrt.Bool("writeFails")
	var wErr error
	wDone := false
	go func() {
		switch term {
		case 0:
			wErr = s.Close()
		case 1:
			wErr = s.SendError(&appErr{msg: "e", code: 5})
		case 2:
			_, wErr = s.SendCancel(context.Canceled)
		}
		wDone = true
	}()
	vrt.WaitFor(&tr.parked)
	vrt.Quiesce()
	vrt.Assert(s.IsTerminated() && !s.IsFinished() && !wDone, "terminated, not finished, while the final packet is in flight")
	k := vrt.U8("kind")
	vrt.Assume(k <= 9)
	pkt := drpcwire.Packet{ID: drpcwire.ID{Stream: sid, Message: 1}, Kind: drpcwire.Kind(k), Control: vrt.Bool("control"), Data: []byte{0, 0, 0, 0, 0, 0, 0, 3, 'p'}}
	var hErr error
	hDone := false
	go func() { hErr = s.HandlePacket(pkt); hDone = true }()
	vrt.Quiesce()
	vrt.Assert(hDone && hErr == nil, "packets arriving after termination are ignored (no error for the manager)")
	vrt.Assert(!s.sigs.cancel.IsSet() || term == 2, "a late packet does not change the stream's signals")
	vrt.Assert(!s.IsFinished(), "still not finished while the write is in flight")
	if fails {
		tr.failAt = 1
	}
	gate = true
	vrt.Quiesce()
	vrt.Assert(wDone, "the terminating call returns")
	if fails {
		vrt.Assert(classify(wErr) == cTransport, "a failed final write reports the transport's error, unaffected by late packets")
	} else {
		vrt.Assert(wErr == nil, "the terminating call succeeds")
	}
	vrt.Assert(s.IsFinished(), "finished once the write returned")
	vrt.Cover("late-packets-end")
}
