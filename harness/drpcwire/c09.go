package drpcwire

import (
	"io"

	"storj.io/drpc"
	vrt "storj.io/drpc/internal/verifrt"
)

// scriptReader is the scripted transport: it delivers the byte string in
// solver-chosen chunks, then fails with finalErr (attached to the last data or after it).
type scriptReader struct {
	data        []byte
	pos         int
	cuts        int  // number of symbolic chunk sizes still to draw
	bytewise    bool // deliver one byte per read
	errWithData bool
	finalErr    error
	reads       int
	empties     int // number of (0,nil) reads to inject before the next data
}

func (s *scriptReader) Read(p []byte) (int, error) {
	s.reads++
	if s.empties > 0 {
		s.empties--
		return 0, nil
	}
	rem := len(s.data) - s.pos
	if rem == 0 {
		return 0, s.finalErr
	}
	n := rem
	if s.bytewise {
		n = 1
	} else if s.cuts > 0 {
		s.cuts--
		n = vrt.Int("chunk")
		vrt.Assume(n >= 1 && n <= rem)
	}
	if n > len(p) {
		n = len(p)
	}
	copy(p, s.data[s.pos:s.pos+n])
	s.pos += n
	if s.pos == len(s.data) && s.errWithData {
		return n, s.finalErr
	}
	return n, nil
}

// ---- reference reassembly (written from the property statement / reader docs) ----

const (
	evPacket   = 0
	evProtocol = 1 // protocol error
	evIO       = 2 // the transport's error
)

type refReasm struct {
	s    []byte
	pos  int
	max  int
	id   ID // watermark: next acceptable id
	dead bool
}

type refPacket struct {
	kind    uint8
	control bool
	id      ID
	data    []byte
}

// next returns the next event of the reference reassembly of the whole byte string.
func (r *refReasm) next() (ev int, pkt refPacket) {
	started := false
	for {
		st, consumed, fr := refParseFrame(r.s[r.pos:])
		switch st {
		case refBad:
			return evProtocol, pkt
		case refMore:
			// an incomplete frame: too many buffered bytes => overflow, else the stream just ended
			if len(r.s)-r.pos-maxFrameOverhead > r.max {
				return evProtocol, pkt
			}
			return evIO, pkt
		}
		id := ID{Stream: fr.stream, Message: fr.message}
		data := r.s[r.pos+fr.dataPos : r.pos+fr.dataPos+fr.length]
		r.pos += consumed
		if id.Less(r.id) {
			return evProtocol, pkt
		}
		if !started || id != pkt.id {
			// a new (higher) id discards an unfinished packet
			started = true
			r.id = id
			pkt = refPacket{kind: fr.kind, control: fr.control, id: id}
		} else {
			if fr.kind != pkt.kind {
				return evProtocol, pkt
			}
			pkt.control = pkt.control || fr.control
		}
		pkt.data = append(pkt.data, data...)
		if len(pkt.data) > r.max {
			return evProtocol, pkt
		}
		if fr.done {
			r.id.Message++
			return evPacket, pkt
		}
	}
}

func classify(err error) int {
	if drpc.ProtocolError.Has(err) {
		return evProtocol
	}
	return evIO
}

// compareWithReference drives the real reader and the reference side by side.
func compareWithReference(stream []byte, max int, sr *scriptReader, calls int) {
	opt := max
	rd := NewReaderWithOptions(sr, ReaderOptions{MaximumBufferSize: opt})
	ref := &refReasm{s: stream, max: max, id: ID{Stream: 1, Message: 1}}
	var buf []byte
	for i := 0; i < calls; i++ {
		pkt, err := rd.ReadPacketUsing(buf)
		ev, rp := ref.next()
		if ev != evPacket {
			vrt.Assert(err != nil, "reader reports an error where the reference does")
			if err != nil {
				vrt.Assert(classify(err) == ev, "error class equals reference (protocol vs transport)")
				if ev == evIO {
					vrt.Assert(err == sr.finalErr, "transport error is passed through unchanged")
				}
			}
			vrt.Cover("reader-error")
			if ev == evProtocol {
				vrt.Cover("reader-protocol-error")
			}
			return
		}
		vrt.Assert(err == nil, "reader returns a packet where the reference does")
		if err != nil {
			return
		}
		vrt.Assert(pkt.ID == rp.id, "packet id equals reference")
		vrt.Assert(uint8(pkt.Kind) == rp.kind, "packet kind equals reference")
		vrt.Assert(pkt.Control == rp.control, "packet control flag equals reference")
		vrt.Assert(len(pkt.Data) == len(rp.data), "packet length equals reference")
		for j := range rp.data {
			vrt.Assert(pkt.Data[j] == rp.data[j], "packet bytes equal reference")
		}
		vrt.Assert(len(pkt.Data) <= max, "packet not larger than the configured maximum")
		// memory bound: what stays buffered is at most one incomplete frame's worth + what was just read
		vrt.Assert(len(rd.buf) <= len(stream), "buffer never holds more than was delivered")
		vrt.Cover("reader-packet")
		if i > 0 {
			vrt.Cover("reader-second-packet")
		}
		buf = pkt.Data
	}
}

func symFrame(prefix string, maxdata int) Frame {
	var fr Frame
	fr.ID.Stream = uint64(vrt.U8(prefix + ".stream"))
	fr.ID.Message = uint64(vrt.U8(prefix + ".message"))
	vrt.Assume(fr.ID.Stream < 4 && fr.ID.Message < 4)
	k := vrt.U8(prefix + ".kind")
	vrt.Assume(k < 64)
	fr.Kind = Kind(k)
	fr.Done = vrt.Bool(prefix + ".done")
	fr.Control = vrt.Bool(prefix + ".control")
	fr.Data = vrt.Bytes(prefix+".data", maxdata)
	return fr
}

// VerifH_ReaderStructured: streams of up to 3 structured frames (ids in [0,4)^2, any kind,
// flags, payload <= maxdata), optionally followed by a truncated/garbage tail, fed with
// symbolic chunking; the reader must equal the reference reassembly.
func VerifH_ReaderStructured() {
	nframes := vrt.Param("frames", 2)
	maxdata := vrt.Param("maxdata", 2)
	var stream []byte
	for i := 0; i < nframes; i++ {
		stream = AppendFrame(stream, symFrame([]string{"f0", "f1", "f2", "f3"}[i], maxdata))
	}
	stream = append(stream, vrt.Bytes("tail", vrt.Param("tail", 0))...)
	max := vrt.Int("max")
	vrt.Assume(max >= 1 && max <= vrt.Param("maxmax", 3))
	sr := &scriptReader{data: stream, finalErr: io.EOF}
	sr.cuts = vrt.Param("cuts", 1)
	sr.bytewise = vrt.Bool("bytewise")
	sr.errWithData = vrt.Bool("errWithData")
	compareWithReference(stream, max, sr, nframes+1)
}

// VerifH_ReaderHostile: arbitrary bytes (<= maxlen), symbolic chunking, versus the reference.
func VerifH_ReaderHostile() {
	stream := vrt.Bytes("s", vrt.Param("maxlen", 8))
	max := vrt.Int("max")
	vrt.Assume(max >= 1 && max <= 2)
	sr := &scriptReader{data: stream, finalErr: io.ErrUnexpectedEOF}
	sr.cuts = vrt.Param("cuts", 2)
	sr.errWithData = vrt.Bool("errWithData")
	compareWithReference(stream, max, sr, 3)
}

// VerifH_ReaderManySmall: k small valid frames (one packet each, payload 1 byte) with a small
// maximum, delivered all at once, byte-wise, or with one symbolic cut: all k packets must be
// returned regardless of the chunking (total stream longer than max+overhead).
func VerifH_ReaderManySmall() {
	k := vrt.Param("k", 8)
	var stream []byte
	for i := 0; i < k; i++ {
		stream = AppendFrame(stream, Frame{ID: ID{Stream: 1, Message: uint64(i + 1)}, Kind: KindMessage, Done: true, Data: []byte{vrt.U8("payload")}})
	}
	max := vrt.Int("max")
	vrt.Assume(max >= 1 && max <= 4)
	sr := &scriptReader{data: stream, finalErr: io.EOF}
	sr.cuts = 1
	sr.bytewise = vrt.Bool("bytewise")
	compareWithReference(stream, max, sr, k+1)
}

// VerifH_ReaderNoProgress: a transport that returns (0, nil) forever yields io.ErrNoProgress
// after 100 attempts instead of spinning; fewer empty reads are tolerated.
func VerifH_ReaderNoProgress() {
	stream := AppendFrame(nil, Frame{ID: ID{Stream: 1, Message: 1}, Kind: KindMessage, Done: true})
	n := vrt.Int("empties")
	vrt.Assume(n >= 98 && n <= 101)
	sr := &scriptReader{data: stream, finalErr: io.EOF, empties: n}
	rd := NewReaderWithOptions(sr, ReaderOptions{})
	_, err := rd.ReadPacket()
	if n >= 100 {
		vrt.Assert(err != nil && drpc.InternalError.Has(err), "100 empty reads give an internal (no progress) error")
		vrt.Cover("noprogress-error")
	} else {
		vrt.Assert(err == nil, "fewer than 100 empty reads are tolerated")
		vrt.Cover("noprogress-ok")
	}
}

// VerifH_ReaderLongVarintHeader: a valid packet followed by a frame header in which one of
// the three varints (chosen symbolically) is ten bytes long: either a legal 64-bit value
// (nine continuation bytes + final byte) or malformed (ten continuation bytes). The
// reader must agree with the reference under symbolic chunking: malformed => protocol
// error as soon as the bytes are there (never "need more"), huge length => need-more
// followed by the transport's error or overflow, never a panic.
func VerifH_ReaderLongVarintHeader() {
	stream := AppendFrame(nil, Frame{ID: ID{Stream: 1, Message: 1}, Kind: KindMessage, Done: true, Data: []byte{7}})
	which := vrt.Choice("which", 3)
	hdr := []byte{vrt.U8("ctrl")}
	for f := 0; f < 3; f++ {
		if f == which {
			for i := 0; i < 9; i++ {
				b := vrt.U8("cont")
				vrt.Assume(b >= 0x80)
				hdr = append(hdr, b)
			}
			hdr = append(hdr, vrt.U8("last")) // >= 0x80 => malformed
		} else {
			b := vrt.U8("short")
			vrt.Assume(b < 0x80 && b >= 1)
			hdr = append(hdr, b)
		}
	}
	stream = append(stream, hdr...)
	stream = append(stream, vrt.Bytes("tail", 2)...)
	max := vrt.Int("max")
	vrt.Assume(max >= 1 && max <= 3)
	sr := &scriptReader{data: stream, finalErr: io.EOF}
	sr.cuts = vrt.Param("cuts", 1)
	sr.bytewise = vrt.Bool("bytewise")
	compareWithReference(stream, max, sr, 3)
}

// floodReader serves an endless byte stream (a frame header announcing an enormous payload
// followed by zeros), filling the offered buffer fully, half, or one byte at a time, and
// checks the reader's buffer against the memory bound at every Read call.
type floodReader struct {
	rd       **Reader
	hdr      []byte
	pos      int
	policy   int
	max      int
	reads    int
	worstCap int
}

func (f *floodReader) Read(p []byte) (int, error) {
	f.reads++
	rd := *f.rd
	if cap(rd.buf) > f.worstCap {
		f.worstCap = cap(rd.buf)
	}
	vrt.Assert(cap(rd.buf) <= 2*f.max+12344, "the read buffer never grows beyond 2*max + 12344 bytes")
	vrt.Assert(len(rd.buf) <= f.max+maxFrameOverhead, "at most one incomplete frame's worth (max + overhead) is buffered when more is requested")
	n := len(p)
	switch f.policy {
	case 1:
		n = (n + 1) / 2
	case 2:
		n = 1
	}
	for i := 0; i < n; i++ {
		if f.pos < len(f.hdr) {
			p[i] = f.hdr[f.pos]
		} else if i < 64 || f.policy == 2 {
			p[i] = 0
		}
		f.pos++
	}
	return n, nil
}

// VerifH_ReaderMemoryBound: hostile endless input (one frame announcing 2^40 payload
// bytes), for maximum sizes 1 .. 70000 (beyond the initial 4096-byte buffer, so the
// growth path runs) and three read-fill policies: the reader ends with a protocol error
// after buffering at most max + overhead bytes, and its buffer capacity stays within
// 2*max + 12344 at every read.
func VerifH_ReaderMemoryBound() {
	max := []int{1, 64, 5000, 70000}[vrt.Choice("maxClass", 4)]
	policy := vrt.Choice("fill", 3)
	vrt.Assume(policy != 2 || max <= 64) // byte-wise only for the small maxima (loop length)
	hdr := []byte{byte(KindMessage) << 1, 1, 1}
	hdr = AppendVarint(hdr, 1<<40)
	var rd *Reader
	fr := &floodReader{rd: &rd, hdr: hdr, policy: policy, max: max}
	rd = NewReaderWithOptions(fr, ReaderOptions{MaximumBufferSize: max})
	_, err := rd.ReadPacket()
	vrt.Assert(err != nil && classify(err) == evProtocol, "an oversized frame is rejected with a protocol error")
	vrt.Assert(fr.pos <= 2*max+12344+max+maxFrameOverhead, "the reader stops consuming within the memory bound")
	vrt.Cover("membound-end")
	if fr.worstCap > 4096 {
		vrt.Cover("membound-grew")
	}
}

// VerifH_ReaderOversizeTail: a complete small frame followed by a truncated frame that
// announces a long payload; the buffered part of that incomplete frame is just below, at
// or above the allowed maximum plus the frame overhead. Delivered in one read, byte by
// byte or with one symbolic cut, then the transport's error: in every chunking the result
// is the packet, then "data overflow" exactly when the incomplete frame alone exceeds the
// bound, otherwise the transport's error.
func VerifH_ReaderOversizeTail() {
	max := vrt.Int("max")
	vrt.Assume(max >= 1 && max <= 2)
	stream := AppendFrame(nil, Frame{ID: ID{Stream: 1, Message: 1}, Kind: KindMessage, Done: true, Data: []byte{vrt.U8("payload")}})
	hdr := AppendFrame(nil, Frame{ID: ID{Stream: 1, Message: 2}, Kind: KindMessage, Done: true, Data: make([]byte, 120)})
	hdrLen := len(hdr) - 120
	extra := []int{-1, 0, 1, 12}[vrt.Choice("tail", 4)]
	tail := max + maxFrameOverhead + extra // bytes of the incomplete frame that are delivered
	stream = append(stream, hdr[:tail]...)
	vrt.Assert(tail > hdrLen && tail < len(hdr), "the second frame is truncated inside its payload")
	sr := &scriptReader{data: stream, finalErr: io.ErrUnexpectedEOF}
	switch vrt.Choice("delivery", 3) {
	case 0: // everything in one read
	case 1:
		sr.bytewise = true
	case 2:
		sr.cuts = 1
	}
	sr.errWithData = vrt.Bool("errWithData")
	compareWithReference(stream, max, sr, 3)
	vrt.Cover("oversize-tail-end")
}
