package main

// Engine-level models of a few standard-library leaf functions that are not
// interpretable from their SSA (assembly, unsafe, reflection).

import (
	"go/token"
	"go/types"

	"golang.org/x/tools/go/ssa"
)

// pushedFrame is returned by an intrinsic that pushed a callee frame itself: the
// result is delivered when that frame returns (through Frame.wrap).
type pushedFrame struct{}

// ReflValV is the engine's reflect.Value: either a wrapped interface value or a bound method.
type ReflValV struct {
	iface  IfaceV
	method *ssa.Function
	recv   Value
}

// ReflTypeV is the engine's *reflect.rtype: a method signature or a plain type.
type ReflTypeV struct {
	sig *types.Signature
	typ types.Type
}

func (e *Engine) strBytes(st *State, s *StrV) (n int, get func(i int) *Term) {
	n = e.concInt(st, s.len)
	off := e.concInt(st, s.off)
	return n, func(i int) *Term { return s.arr.get(off + i).(*Term) }
}

func (e *Engine) rtypeType() types.Type {
	if e.sh.rtype != nil {
		return e.sh.rtype
	}
	for _, p := range e.prog.AllPackages() {
		if p.Pkg.Path() == "reflect" {
			if obj := p.Pkg.Scope().Lookup("rtype"); obj != nil {
				e.sh.rtype = types.NewPointer(obj.Type())
			}
		}
	}
	return e.sh.rtype
}

func reflectKind(t types.Type) uint64 {
	switch u := t.Underlying().(type) {
	case *types.Basic:
		switch u.Kind() {
		case types.Bool:
			return 1
		case types.Int:
			return 2
		case types.Int8:
			return 3
		case types.Int16:
			return 4
		case types.Int32:
			return 5
		case types.Int64:
			return 6
		case types.Uint:
			return 7
		case types.Uint8:
			return 8
		case types.Uint16:
			return 9
		case types.Uint32:
			return 10
		case types.Uint64:
			return 11
		case types.Uintptr:
			return 12
		case types.String:
			return 24
		}
	case *types.Interface:
		return 20
	case *types.Pointer:
		return 22
	case *types.Slice:
		return 23
	case *types.Struct:
		return 25
	case *types.Map:
		return 21
	case *types.Signature:
		return 19
	}
	return 0
}

func init() {
	intrinsics["strings.Count"] = func(e *Engine, st *State, th *Thread, args []Value, pos token.Pos) Value {
		s, sub := args[0].(*StrV), args[1].(*StrV)
		sn := e.concInt(st, sub.len)
		if sn != 1 {
			panic(engErr("strings.Count with a separator of length %d is not modelled", sn))
		}
		c := sub.arr.get(e.concInt(st, sub.off)).(*Term)
		n, get := e.strBytes(st, s)
		r := e.i64(0)
		for i := 0; i < n; i++ {
			r = e.ts.Bin(OpAdd, r, e.ts.Ite(e.ts.Eq(get(i), c), e.i64(1), e.i64(0)))
		}
		return r
	}
	intrinsics["strings.IndexByte"] = func(e *Engine, st *State, th *Thread, args []Value, pos token.Pos) Value {
		s := args[0].(*StrV)
		c := args[1].(*Term)
		n, get := e.strBytes(st, s)
		r := e.i64(^uint64(0))
		for i := n - 1; i >= 0; i-- {
			r = e.ts.Ite(e.ts.Eq(get(i), c), e.i64(uint64(i)), r)
		}
		return r
	}
	// strings.Builder: struct{addr *Builder; buf []byte}
	bufPtr := func(p Ptr) Ptr { return p.extend(1) }
	intrinsics["(*strings.Builder).Grow"] = func(e *Engine, st *State, th *Thread, args []Value, pos token.Pos) Value {
		n := args[1].(*Term)
		if e.decide(st, e.ts.Slt(n, e.i64(0))) {
			panic(goPanic{"strings.Builder.Grow: negative count"})
		}
		return nil
	}
	intrinsics["(*strings.Builder).WriteByte"] = func(e *Engine, st *State, th *Thread, args []Value, pos token.Pos) Value {
		p := bufPtr(args[0].(Ptr))
		cur := st.load(p).(SliceV)
		one := st.alloc(&ArrV{n: 1, def: e.ts.BV(8, 0), m: map[int]Value{0: args[1]}})
		tmp := SliceV{obj: one, off: e.i64(0), len: e.i64(1), cap: e.i64(1)}
		st.store(p, e.appendOp(st, cur, tmp, types.NewSlice(types.Typ[types.Uint8])))
		return IfaceV{}
	}
	intrinsics["(*strings.Builder).WriteString"] = func(e *Engine, st *State, th *Thread, args []Value, pos token.Pos) Value {
		p := bufPtr(args[0].(Ptr))
		cur := st.load(p).(SliceV)
		s := args[1].(*StrV)
		n := s.len
		st.store(p, e.appendOp(st, cur, s, types.NewSlice(types.Typ[types.Uint8])))
		return TupleV{n, IfaceV{}}
	}
	intrinsics["(*strings.Builder).String"] = func(e *Engine, st *State, th *Thread, args []Value, pos token.Pos) Value {
		cur := st.load(bufPtr(args[0].(Ptr))).(SliceV)
		return e.convert(st, cur, types.NewSlice(types.Typ[types.Uint8]), types.Typ[types.String])
	}
	intrinsics["(*strings.Builder).Len"] = func(e *Engine, st *State, th *Thread, args []Value, pos token.Pos) Value {
		return st.load(bufPtr(args[0].(Ptr))).(SliceV).len
	}

	// ---- reflect mini-model (enough for method lookup by name and calling it) ----
	intrinsics["reflect.ValueOf"] = func(e *Engine, st *State, th *Thread, args []Value, pos token.Pos) Value {
		return ReflValV{iface: args[0].(IfaceV)}
	}
	intrinsics["reflect.TypeOf"] = func(e *Engine, st *State, th *Thread, args []Value, pos token.Pos) Value {
		iv := args[0].(IfaceV)
		if iv.t == nil {
			return IfaceV{}
		}
		if sig, ok := iv.t.Underlying().(*types.Signature); ok {
			return IfaceV{t: e.rtypeType(), v: ReflTypeV{sig: sig, typ: iv.t}}
		}
		return IfaceV{t: e.rtypeType(), v: ReflTypeV{typ: iv.t}}
	}
	intrinsics["(*reflect.rtype).Elem"] = func(e *Engine, st *State, th *Thread, args []Value, pos token.Pos) Value {
		t := args[0].(ReflTypeV)
		if t.typ == nil {
			panic(goPanic{"reflect: Elem of invalid type"})
		}
		switch u := t.typ.Underlying().(type) {
		case *types.Pointer:
			return IfaceV{t: e.rtypeType(), v: ReflTypeV{typ: u.Elem()}}
		case *types.Slice:
			return IfaceV{t: e.rtypeType(), v: ReflTypeV{typ: u.Elem()}}
		case *types.Array:
			return IfaceV{t: e.rtypeType(), v: ReflTypeV{typ: u.Elem()}}
		case *types.Map:
			return IfaceV{t: e.rtypeType(), v: ReflTypeV{typ: u.Elem()}}
		case *types.Chan:
			return IfaceV{t: e.rtypeType(), v: ReflTypeV{typ: u.Elem()}}
		}
		panic(goPanic{"reflect: Elem of invalid type " + t.typ.String()})
	}
	intrinsics["(*reflect.rtype).In"] = func(e *Engine, st *State, th *Thread, args []Value, pos token.Pos) Value {
		t := args[0].(ReflTypeV)
		i := e.concInt(st, args[1].(*Term))
		if t.sig == nil || i < 0 || i >= t.sig.Params().Len() {
			panic(goPanic{"reflect: In index out of range"})
		}
		return IfaceV{t: e.rtypeType(), v: ReflTypeV{typ: t.sig.Params().At(i).Type()}}
	}
	intrinsics["(*reflect.rtype).Implements"] = func(e *Engine, st *State, th *Thread, args []Value, pos token.Pos) Value {
		t := args[0].(ReflTypeV)
		u, ok := args[1].(IfaceV)
		if !ok || u.t == nil {
			panic(goPanic{"reflect: nil type passed to Type.Implements"})
		}
		it, ok := u.v.(ReflTypeV).typ.Underlying().(*types.Interface)
		if !ok {
			panic(goPanic{"reflect: non-interface type passed to Type.Implements"})
		}
		return e.ts.Bool(types.Implements(t.typ, it))
	}
	intrinsics["(*reflect.rtype).String"] = func(e *Engine, st *State, th *Thread, args []Value, pos token.Pos) Value {
		t := args[0].(ReflTypeV)
		if t.typ != nil {
			return e.strConst(t.typ.String())
		}
		return e.strConst("func")
	}
	intrinsics["reflect.New"] = func(e *Engine, st *State, th *Thread, args []Value, pos token.Pos) Value {
		tv, ok := args[0].(IfaceV)
		if !ok || tv.t == nil {
			panic(goPanic{"reflect: New(nil)"})
		}
		t := tv.v.(ReflTypeV).typ
		obj := st.alloc(e.zero(t))
		return ReflValV{iface: IfaceV{t: types.NewPointer(t), v: Ptr{obj: obj}}}
	}
	intrinsics["(reflect.Value).Interface"] = func(e *Engine, st *State, th *Thread, args []Value, pos token.Pos) Value {
		v := args[0].(ReflValV)
		if v.iface.t == nil {
			panic(goPanic{"reflect: call of reflect.Value.Interface on zero Value"})
		}
		return v.iface
	}
	intrinsics["(reflect.Value).IsNil"] = func(e *Engine, st *State, th *Thread, args []Value, pos token.Pos) Value {
		v := args[0].(ReflValV)
		if v.iface.t == nil {
			panic(goPanic{"reflect: call of reflect.Value.IsNil on zero Value"})
		}
		switch x := v.iface.v.(type) {
		case Ptr:
			return e.ts.Bool(x.obj == 0)
		case MapV:
			return e.ts.Bool(x.obj == 0)
		case ChanV:
			return e.ts.Bool(x.obj == 0)
		case SliceV:
			return e.ts.Bool(x.obj == 0)
		case FuncV:
			return e.ts.Bool(x.fn == nil && x.bi == nil)
		case IfaceV:
			return e.ts.Bool(x.t == nil)
		}
		panic(goPanic{"reflect: call of reflect.Value.IsNil on " + v.iface.t.String() + " Value"})
	}
	intrinsics["(reflect.Value).MethodByName"] = func(e *Engine, st *State, th *Thread, args []Value, pos token.Pos) Value {
		v := args[0].(ReflValV)
		name := e.mustConstString(st, args[1])
		if v.iface.t == nil {
			panic(goPanic{"reflect: call of reflect.Value.MethodByName on zero Value"})
		}
		ms := e.prog.MethodSets.MethodSet(v.iface.t)
		for i := 0; i < ms.Len(); i++ {
			sel := ms.At(i)
			if sel.Obj().Name() == name && sel.Obj().Exported() {
				fn := e.prog.MethodValue(sel)
				return ReflValV{method: fn, recv: v.iface.v}
			}
		}
		return ReflValV{}
	}
	intrinsics["(reflect.Value).IsValid"] = func(e *Engine, st *State, th *Thread, args []Value, pos token.Pos) Value {
		v := args[0].(ReflValV)
		return e.ts.Bool(v.iface.t != nil || v.method != nil)
	}
	intrinsics["(reflect.Value).Type"] = func(e *Engine, st *State, th *Thread, args []Value, pos token.Pos) Value {
		v := args[0].(ReflValV)
		rt := e.rtypeType()
		if v.method != nil {
			return IfaceV{t: rt, v: ReflTypeV{sig: v.method.Signature}}
		}
		if v.iface.t == nil {
			panic(goPanic{"reflect: call of reflect.Value.Type on zero Value"})
		}
		return IfaceV{t: rt, v: ReflTypeV{typ: v.iface.t}}
	}
	intrinsics["(*reflect.rtype).NumIn"] = func(e *Engine, st *State, th *Thread, args []Value, pos token.Pos) Value {
		t := args[0].(ReflTypeV)
		if t.sig == nil {
			panic(goPanic{"reflect: NumIn of non-func type"})
		}
		return e.i64(uint64(t.sig.Params().Len()))
	}
	intrinsics["(*reflect.rtype).NumOut"] = func(e *Engine, st *State, th *Thread, args []Value, pos token.Pos) Value {
		t := args[0].(ReflTypeV)
		if t.sig == nil {
			panic(goPanic{"reflect: NumOut of non-func type"})
		}
		return e.i64(uint64(t.sig.Results().Len()))
	}
	intrinsics["(*reflect.rtype).Out"] = func(e *Engine, st *State, th *Thread, args []Value, pos token.Pos) Value {
		t := args[0].(ReflTypeV)
		i := e.concInt(st, args[1].(*Term))
		if t.sig == nil || i < 0 || i >= t.sig.Results().Len() {
			panic(goPanic{"reflect: Out index out of range"})
		}
		return IfaceV{t: e.rtypeType(), v: ReflTypeV{typ: t.sig.Results().At(i).Type()}}
	}
	intrinsics["(*reflect.rtype).Kind"] = func(e *Engine, st *State, th *Thread, args []Value, pos token.Pos) Value {
		t := args[0].(ReflTypeV)
		if t.sig != nil {
			return e.i64(19)
		}
		return e.i64(reflectKind(t.typ))
	}
	intrinsics["(reflect.Value).Call"] = func(e *Engine, st *State, th *Thread, args []Value, pos token.Pos) Value {
		v := args[0].(ReflValV)
		if v.method == nil {
			panic(goPanic{"reflect: call of reflect.Value.Call on non-method Value"})
		}
		in := args[1].(SliceV)
		nin := e.concInt(st, in.len)
		if nin < v.method.Signature.Params().Len() {
			panic(goPanic{"reflect: Call with too few input arguments"})
		}
		if nin > v.method.Signature.Params().Len() && !v.method.Signature.Variadic() {
			panic(goPanic{"reflect: Call with too many input arguments"})
		}
		if nin != 0 {
			panic(engErr("reflect.Value.Call with arguments is not modelled"))
		}
		fr := e.newFrame(v.method, []Value{v.recv}, nil)
		res := v.method.Signature.Results()
		fr.wrap = func(st *State, r Value) Value {
			// []reflect.Value of the results
			var vals []Value
			if res.Len() == 1 {
				vals = []Value{ReflValV{iface: IfaceV{t: res.At(0).Type(), v: r}}}
			} else {
				for i, x := range r.(TupleV) {
					vals = append(vals, ReflValV{iface: IfaceV{t: res.At(i).Type(), v: x}})
				}
			}
			m := map[int]Value{}
			for i, x := range vals {
				m[i] = x
			}
			obj := st.alloc(&ArrV{n: len(vals), def: ReflValV{}, m: m})
			return SliceV{obj: obj, off: e.i64(0), len: e.i64(uint64(len(vals))), cap: e.i64(uint64(len(vals)))}
		}
		th.frames = append(th.frames, fr)
		return pushedFrame{}
	}
	intrinsics["(reflect.Value).String"] = func(e *Engine, st *State, th *Thread, args []Value, pos token.Pos) Value {
		v := args[0].(ReflValV)
		if s, ok := v.iface.v.(*StrV); ok {
			return s
		}
		return e.strConst("<non-string Value>")
	}
}
