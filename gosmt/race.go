package main

// Happens-before data-race detection for library-allocated byte/element buffers (slice
// backing arrays). The partial-order reduction of the scheduler assumes data-race-free
// code; this detector reports code that breaks the assumption on buffers (the lending /
// reuse hazards the properties talk about). Every visible operation is treated as both
// an acquire and a release on its synchronisation object, and Quiesce/WaitFor/Yield join
// with every thread, which over-approximates happens-before: a reported race is a real
// absence of synchronisation, some races may go unreported.

import (
	"fmt"
	"go/token"
	"os"
	"strings"
)

type raceAccess struct {
	tid   int
	clock int
	pos   string
}

type raceInfo struct {
	w     raceAccess
	hasW  bool
	reads []raceAccess
}

func (e *Engine) raceOn(st *State) bool {
	return e.cfg.Race && len(st.threads) > 1
}

func (e *Engine) vcOf(st *State, th *Thread) []int {
	for len(th.vc) < len(st.threads) {
		th.vc = append(th.vc, 0)
	}
	if th.vc[th.id] == 0 {
		th.vc[th.id] = 1
	}
	return th.vc
}

func joinVC(a []int, b []int) []int {
	for len(a) < len(b) {
		a = append(a, 0)
	}
	for i, v := range b {
		if v > a[i] {
			a[i] = v
		}
	}
	return a
}

// syncOn: acquire+release on the sync object named key (read-modify-write operations,
// unbuffered rendez-vous).
func (e *Engine) syncOn(st *State, th *Thread, key string) {
	e.acquire(st, th, key)
	e.release(st, th, key)
}

// rendezvous: an unbuffered channel operation completes between the running thread and
// its parked partner: each learns the other's clock.
func (e *Engine) rendezvous(st *State, th, u *Thread) {
	if !e.cfg.Race {
		return
	}
	a, b := e.vcOf(st, th), e.vcOf(st, u)
	j := joinVC(append([]int(nil), a...), b)
	th.vc = append([]int(nil), j...)
	u.vc = append([]int(nil), j...)
	th.vc[th.id]++
	u.vc[u.id]++
}

// acquire: the thread learns everything released on the object so far.
func (e *Engine) acquire(st *State, th *Thread, key string) {
	if !e.cfg.Race {
		return
	}
	vc := e.vcOf(st, th)
	if c, ok := st.syncVC[key]; ok {
		vc = joinVC(vc, c)
	}
	th.vc = vc
}

// release: the thread publishes its clock on the object.
func (e *Engine) release(st *State, th *Thread, key string) {
	if !e.cfg.Race {
		return
	}
	vc := e.vcOf(st, th)
	if st.syncVC == nil {
		st.syncVC = map[string][]int{}
	}
	old := st.syncVC[key]
	st.syncVC[key] = joinVC(append([]int(nil), vc...), old)
	th.vc[th.id]++
}

// syncAll: join with every thread (harness gates and quiescence).
func (e *Engine) syncAll(st *State, th *Thread) {
	if !e.cfg.Race {
		return
	}
	vc := e.vcOf(st, th)
	for _, u := range st.threads {
		if u != th {
			vc = joinVC(vc, e.vcOf(st, u))
		}
	}
	th.vc = vc
	th.vc[th.id]++
}

func isHarnessFile(pos string) bool {
	return strings.Contains(pos, "zz_verif_") || strings.Contains(pos, "/internal/verifrt/") || strings.Contains(pos, "/internal/verif017/")
}

func (e *Engine) curPosStr(st *State) string {
	th := st.thread()
	if len(th.frames) == 0 {
		return "?"
	}
	f := th.top()
	for j := f.pc; j >= 0 && j < len(f.block.Instrs); j-- {
		if p := f.block.Instrs[j].Pos(); p != token.NoPos {
			return posOf(e.prog, p)
		}
	}
	return f.fn.String()
}

// markLibArray records that the array object was allocated by library code.
func (e *Engine) markLibArray(st *State, obj int) {
	if !e.cfg.Race || obj == 0 {
		return
	}
	th := st.thread()
	if len(th.frames) == 0 {
		return
	}
	fn := th.top().fn
	if fn.Pkg != nil {
		path := fn.Pkg.Pkg.Path()
		if strings.Contains(path, "/internal/verifrt") || strings.Contains(path, "/internal/verif017") {
			return
		}
	}
	if isHarnessFile(posOf(e.prog, fn.Pos())) {
		return
	}
	if st.libArr == nil {
		st.libArr = map[int]bool{}
	}
	st.libArr[obj] = true
}

func (e *Engine) raceAccess(st *State, obj int, write bool) {
	if os.Getenv("GOSMT_RACE_DEBUG") != "" && obj != 0 {
		fmt.Fprintf(os.Stderr, "RACE-ACCESS obj=%d write=%v lib=%v on=%v thr=%d pos=%s\n", obj, write, st.libArr[obj], e.raceOn(st), st.cur, e.curPosStr(st))
	}
	if !e.raceOn(st) || obj == 0 || !st.libArr[obj] {
		return
	}
	th := st.thread()
	vc := e.vcOf(st, th)
	info := st.shadow[obj]
	me := raceAccess{tid: th.id, clock: vc[th.id], pos: e.curPosStr(st)}
	unordered := func(a raceAccess) bool {
		return a.tid != th.id && (a.tid >= len(vc) || a.clock > vc[a.tid])
	}
	if info != nil {
		if info.hasW && unordered(info.w) {
			e.reportRace(st, obj, me, write, info.w, true)
		}
		if write {
			for _, r := range info.reads {
				if unordered(r) {
					e.reportRace(st, obj, me, write, r, false)
				}
			}
		}
	}
	ni := &raceInfo{}
	if info != nil {
		*ni = *info
		ni.reads = append([]raceAccess(nil), info.reads...)
	}
	if write {
		ni.w, ni.hasW, ni.reads = me, true, nil
	} else {
		found := false
		for i := range ni.reads {
			if ni.reads[i].tid == th.id {
				ni.reads[i] = me
				found = true
			}
		}
		if !found {
			ni.reads = append(ni.reads, me)
		}
	}
	if st.shadow == nil {
		st.shadow = map[int]*raceInfo{}
	}
	st.shadow[obj] = ni
}

func (e *Engine) reportRace(st *State, obj int, me raceAccess, meWrite bool, other raceAccess, otherWrite bool) {
	kind := func(w bool) string {
		if w {
			return "write"
		}
		return "read"
	}
	label := fmt.Sprintf("data race on a library buffer: %s at %s is not ordered after the %s at %s", kind(meWrite), shortPos(me.pos), kind(otherWrite), shortPos(other.pos))
	st.notes = append(st.notes, fmt.Sprintf("threads %d and %d", me.tid, other.tid))
	e.recordViolation(st, "race", label, me.pos, e.modelFor(st, nil))
}
