#!/usr/bin/env python3
"""Runs every quick-tier harness once on the clean tree and records which library
functions it executes and how long it takes (used by tools/mutation_sweep.py to pick,
cheapest first, the harnesses that can see a mutated function). Output: JSON list."""
import json, subprocess, sys, re, concurrent.futures as cf
c = json.load(open('/verif/checks.json'))
specs = {}
for pid, spec in c.items():
    for h in spec['harnesses']:
        if h.get('quick', {}).get('skip'): continue
        params = dict(h.get('params', {})); params.update(h.get('quick', {}).get('params', {}) or {})
        K = h.get('quick', {}).get('K', h.get('K', 0))
        key = (h['pkg'], h['fn'], json.dumps(params, sort_keys=True), K, bool(h.get('fine')))
        specs.setdefault(key, []).append(pid)
def run(key):
    pkg, fn, params, K, fine = key
    p = json.loads(params)
    cmd = ['/verif/bin/gosmt', 'run', '-pkg', pkg, '-fn', '^' + fn + '$', '-K', str(K), '-w', '4', '-timeout', '600', '-v']
    if p: cmd += ['-params', ','.join(f'{k}={v}' for k, v in p.items())]
    if fine: cmd += ['-fine']
    out = subprocess.run(cmd, capture_output=True, text=True, cwd='/verif/gosmt').stdout
    i = out.find('\n{\n') + 1
    try: d = json.loads(out[i:])
    except Exception: return None
    labs = sorted(set((v.get('label') or v.get('Label') or '') for v in (d.get('violations') or [])))
    return {'clean_labels': labs, 'pkg': pkg, 'fn': fn, 'params': p, 'K': K, 'fine': fine, 'props': specs[key], 'wall': d['wall_s'], 'funcs': [f for f in d['functions_encoded'] if 'storj.io/drpc' in f and 'verifrt' not in f]}
with cf.ThreadPoolExecutor(4) as ex:
    res = [r for r in ex.map(run, list(specs)) if r]
json.dump(res, open(sys.argv[1], 'w'), indent=1)
print(len(res), 'harnesses')
