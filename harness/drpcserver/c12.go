package drpcserver

import (
	"context"
	"net"
	"time"

	"storj.io/drpc"
	vrt "storj.io/drpc/internal/verifrt"
	"storj.io/drpc/internal/verifrt/hx"
)

type fakeAddr struct{}

func (fakeAddr) Network() string { return "fake" }
func (fakeAddr) String() string  { return "fake" }

type fakeConn struct{ *hx.Transport }

func (fakeConn) LocalAddr() net.Addr                { return fakeAddr{} }
func (fakeConn) RemoteAddr() net.Addr               { return fakeAddr{} }
func (fakeConn) SetDeadline(t time.Time) error      { return nil }
func (fakeConn) SetReadDeadline(t time.Time) error  { return nil }
func (fakeConn) SetWriteDeadline(t time.Time) error { return nil }

// fakeListener hands out the scripted connections, then blocks until closed.
type fakeListener struct {
	conns    []net.Conn
	accepted bool
	closed   bool
	closes   int
	failHard bool   // after the scripted connections Accept fails with a permanent error
	onAccept func() // runs inside Accept just before a scripted connection is returned
}

func (l *fakeListener) Accept() (net.Conn, error) {
	if len(l.conns) > 0 {
		c := l.conns[0]
		l.conns = l.conns[1:]
		l.accepted = true
		if l.onAccept != nil {
			l.onAccept()
		}
		return c, nil
	}
	if l.failHard {
		return nil, &hx.Err{S: "accept failed"}
	}
	vrt.WaitFor(&l.closed)
	return nil, &hx.Err{S: "listener closed"}
}

func (l *fakeListener) Close() error {
	l.closes++
	l.closed = true
	return nil
}

func (l *fakeListener) Addr() net.Addr { return fakeAddr{} }

type idleHandler struct{}

func (idleHandler) HandleRPC(stream drpc.Stream, rpc string) error { return nil }

// VerifH_ServeTeardown: Serve over a listener that delivers one connection; Serve is
// stopped by context cancellation (right after the accept, or later) or by a permanent
// accept error. Serve must return only after the accepted connection was torn down, the
// listener is closed and no goroutine is left.
func VerifH_ServeTeardown() {
	tr := &hx.Transport{}
	lis := &fakeListener{conns: []net.Conn{fakeConn{tr}}}
	lis.failHard = vrt.Bool("acceptFails")
	ctx := hx.NewCtx()
	if vrt.Bool("cancelInsideAccept") {
		// the context is cancelled at the very moment Accept hands out a live connection
		lis.onAccept = func() { ctx.Cancel(context.Canceled) }
	}
	srv := New(idleHandler{})
	serveDone := false
	tornDownAtReturn := false
	var serveErr error
	go func() {
		serveErr = srv.Serve(ctx, lis)
		tornDownAtReturn = tr.Closed
		serveDone = true
	}()
	go func() {
		vrt.WaitFor(&lis.accepted)
		if ctx.Err() == nil {
			ctx.Cancel(context.Canceled)
		}
	}()
	vrt.Quiesce()
	if !serveDone {
		// the connection's ServeOne is still parked in the transport: the peer goes away
		tr.Close()
		vrt.Quiesce()
	}
	vrt.Assert(serveDone, "Serve returns after cancellation / accept failure")
	vrt.Assert(tornDownAtReturn, "Serve returns only after the accepted connection has been torn down")
	vrt.Assert(tr.Closes == 1, "an accepted connection's transport is closed exactly once")
	vrt.Assert(lis.closed, "the listener is closed")
	vrt.Assert(vrt.Unfinished() == 0, "no goroutine is left behind")
	_ = serveErr
	vrt.Cover("serve-teardown-end")
}
