package drpcserver

import (
	"context"

	"io"
	"storj.io/drpc"
	"storj.io/drpc/drpcconn"
	"storj.io/drpc/drpcerr"
	"storj.io/drpc/drpcmanager"
	"storj.io/drpc/drpcmetadata"

	vrt "storj.io/drpc/internal/verifrt"
	"storj.io/drpc/internal/verifrt/hx"
)

type codedAppErr struct {
	msg  string
	code uint64
}

func (e *codedAppErr) Error() string { return e.msg }
func (e *codedAppErr) Code() uint64  { return e.code }

type wrapAppErr struct{ inner error }

func (e *wrapAppErr) Error() string { return e.inner.Error() }
func (e *wrapAppErr) Unwrap() error { return e.inner }

// e2eHandler: mode 0 echoes the request with every byte +1; mode 1 fails with a coded
// error (optionally wrapped); mode 2 sends a response and then fails.
type e2eHandler struct {
	mode  int
	msg   string
	code  uint64
	wrap  bool
	calls int
	meta  []map[string]string // metadata seen by each call
}

func (h *e2eHandler) HandleRPC(stream drpc.Stream, rpc string) error {
	h.calls++
	md, _ := drpcmetadata.Get(stream.Context())
	h.meta = append(h.meta, md)
	var in []byte
	if err := stream.MsgRecv(&in, hx.ByteEnc{}); err != nil {
		return err
	}
	if rpc == "probe" || h.mode == 0 || h.mode == 2 {
		out := make([]byte, len(in))
		for i := range in {
			out[i] = in[i] + 1
		}
		if err := stream.MsgSend(&out, hx.ByteEnc{}); err != nil {
			return err
		}
	}
	if rpc != "probe" && h.mode != 0 {
		var err error = &codedAppErr{h.msg, h.code}
		if h.wrap {
			err = &wrapAppErr{err}
		}
		return err
	}
	return nil
}

// VerifH_EndToEndUnary: both endpoints in one run: a real drpcconn client and the real
// ServeOne loop over an in-memory pipe (client reader/stream-manager, server
// reader/stream-manager, serve loop, application = 6 threads). A unary call whose handler
// echoes or fails with any 64-bit code / message; then a probe call on the same
// connection; then the client closes and the server loop returns.
func VerifH_EndToEndUnary() {
	trC, trS := hx.Pipe()
	// lite=1 fixes the data (request, error text and code, no wrapper, no metadata) so that
	// the budget goes into schedules instead: used with a preemption bound in the thorough tier
	lite := vrt.Param("lite", 0) == 1
	h := &e2eHandler{mode: vrt.Choice("mode", 2)}
	if lite {
		h.msg, h.code = "e", 7
	} else {
		h.msg, h.code, h.wrap = vrt.Str("emsg", 2), vrt.U64("ecode"), vrt.Bool("wrap")
	}
	srv := New(h)
	serveDone := false
	go func() { _ = srv.ServeOne(hx.NewCtx(), trS); serveDone = true }()
	conn := drpcconn.New(trC)
	enc := hx.ByteEnc{}
	req := []byte{1, 2}
	withMeta := false
	mk, mv := "k", "v"
	if !lite {
		req = vrt.BytesN("req", 2)
		withMeta = vrt.Bool("withMeta")
		mk, mv = vrt.Str("mkey", 1), vrt.Str("mval", 1)
	}
	var resp []byte
	var err error
	d := false
	var cctx context.Context = hx.NewCtx()
	if withMeta {
		cctx = drpcmetadata.Add(cctx, mk, mv)
	}
	go func() { err = conn.Invoke(cctx, "rpc", enc, &req, &resp); d = true }()
	vrt.Quiesce()
	vrt.Assert(d, "the unary call returns")
	if h.mode == 0 {
		vrt.Assert(err == nil, "a handler that returns a response and no error never yields an error at the client")
		vrt.Assert(len(resp) == 2 && resp[0] == req[0]+1 && resp[1] == req[1]+1, "the caller receives the response to its own request, intact")
		vrt.Cover("e2e-echo")
	} else {
		vrt.Assert(err != nil, "a failing handler fails the client call")
		if err != nil {
			vrt.Assert(err.Error() == h.msg, "the client error carries exactly the handler's message")
			vrt.Assert(drpcerr.Code(err) == h.code, "the client error carries exactly the handler's code")
		}
		vrt.Cover("e2e-error")
	}
	// the connection remains usable
	preq := []byte{0x10}
	var presp []byte
	var perr error
	pd := false
	go func() { perr = conn.Invoke(hx.NewCtx(), "probe", enc, &preq, &presp); pd = true }()
	vrt.Quiesce()
	vrt.Assert(pd && perr == nil && len(presp) == 1 && presp[0] == 0x11, "afterwards the connection is usable: the probe call completes with its own response")
	vrt.Assert(h.calls == 2, "each call reached its handler exactly once")
	if h.calls == 2 && len(h.meta) == 2 {
		if withMeta {
			vrt.Assert(len(h.meta[0]) == 1 && h.meta[0][mk] == mv, "the handler serving the call sees exactly the metadata attached to it")
		} else {
			vrt.Assert(len(h.meta[0]) == 0, "no metadata appears from nowhere")
		}
		vrt.Assert(len(h.meta[1]) == 0, "the next call on the connection sees none of it")
	}
	// teardown
	cd := false
	go func() { conn.Close(); cd = true }()
	vrt.Quiesce()
	vrt.Assert(cd && serveDone, "closing the client tears down both sides")
	vrt.Assert(trC.Closes == 1 && trS.Closes == 1, "each side closes its transport exactly once")
	vrt.Assert(vrt.Unfinished() == 0, "no goroutine is left on either side")
	vrt.Cover("e2e-end")
}

// streamHandler: mode 0 echoes every message until the client half-closes; mode 1 reads
// one message and returns nil; mode 2 reads one message and fails; mode 3 blocks in a
// receive until its stream context is cancelled and records that.
type streamHandler struct {
	meta       map[string]string
	sawMeta    bool
	mode       int
	started    bool
	returned   bool
	ctxDone    bool
	recvErrSet bool
}

func (h *streamHandler) HandleRPC(stream drpc.Stream, rpc string) error {
	if rpc == "probe" {
		var in []byte
		if err := stream.MsgRecv(&in, hx.ByteEnc{}); err != nil {
			return err
		}
		out := []byte{in[0] + 1}
		return stream.MsgSend(&out, hx.ByteEnc{})
	}
	h.started = true
	h.meta, h.sawMeta = drpcmetadata.Get(stream.Context())
	defer func() { h.returned = true }()
	switch h.mode {
	case 0:
		for {
			var in []byte
			if err := stream.MsgRecv(&in, hx.ByteEnc{}); err != nil {
				return nil // end of the client's messages
			}
			out := []byte{in[0] + 1}
			if err := stream.MsgSend(&out, hx.ByteEnc{}); err != nil {
				return err
			}
		}
	case 1, 2, 4:
		var in []byte
		_ = stream.MsgRecv(&in, hx.ByteEnc{})
		if h.mode == 4 {
			// half-close explicitly (as a generated SendAndClose does), then fail
			_ = stream.CloseSend()
			return &codedAppErr{"stop", 7}
		}
		if h.mode == 2 {
			return &codedAppErr{"stop", 7}
		}
		return nil
	default:
		for {
			var in []byte
			if err := stream.MsgRecv(&in, hx.ByteEnc{}); err != nil {
				h.recvErrSet = true
				h.ctxDone = hx.IsClosedCh(stream.Context().Done())
				return err
			}
		}
	}
}

// VerifH_EndToEndStream: both endpoints, a bidirectional stream: the client sends n
// messages; the handler echoes all / stops early / fails early / waits for cancellation;
// the client half-closes and drains, or cancels its context (both cancel modes). Checks:
// in-order exactly-once delivery in both directions, end-of-stream only after all echoes,
// the handler's error reaches the client intact, a cancelled RPC cancels the peer
// handler's stream context, and the connection is afterwards reusable or reports closed.
func VerifH_EndToEndStream() {
	trC, trS := hx.Pipe()
	h := &streamHandler{mode: vrt.Choice("hmode", 5)}
	vrt.Tag("handler-half-closes-then-fails", h.mode == 4)
	soft := vrt.Bool("soft")
	srv := New(h)
	serveDone := false
	go func() { _ = srv.ServeOne(hx.NewCtx(), trS); serveDone = true }()
	conn := drpcconn.NewWithOptions(trC, drpcconn.Options{Manager: drpcmanager.Options{SoftCancel: soft}})
	enc := hx.ByteEnc{}
	ctx := hx.NewCtx()
	withMeta := vrt.Bool("withMeta")
	mk, mv := "k", "v" // symbolic metadata strings are covered by the unary harness
	var sctx context.Context = ctx
	if withMeta {
		sctx = drpcmetadata.Add(sctx, mk, mv)
	}
	st, err := conn.NewStream(sctx, "rpc", enc)
	vrt.Assert(err == nil, "stream starts")
	n := 1 + vrt.Choice("extra", vrt.Param("maxmsgs", 2))
	sent := []byte{vrt.U8("m0"), vrt.U8("m1"), vrt.U8("m2")}
	var got []byte
	var rerr error
	done := false
	go func() {
		for i := 0; i < n; i++ {
			m := []byte{sent[i]}
			if err := st.MsgSend(&m, enc); err != nil {
				// as with gRPC, a send that fails because the peer ended the RPC reports
				// end-of-stream; the RPC's real outcome is obtained from the receive side
				// (a send racing the arrival of the status may also report the status itself)
				break
			}
		}
		if h.mode != 3 {
			_ = st.CloseSend()
		}
		for {
			var in []byte
			if err := st.MsgRecv(&in, enc); err != nil {
				rerr = err
				break
			}
			got = append(got, in...)
		}
		done = true
	}()
	vrt.Quiesce()
	if h.started {
		if withMeta {
			vrt.Assert(h.sawMeta && len(h.meta) == 1 && h.meta[mk] == mv, "the stream's handler sees exactly the metadata attached to the call")
		} else {
			vrt.Assert(len(h.meta) == 0, "no metadata appears from nowhere")
		}
	}
	switch h.mode {
	case 0:
		vrt.Assert(done && rerr == io.EOF, "after a graceful half-close the client sees end-of-stream")
		vrt.Assert(len(got) == n, "every echo is received exactly once")
		for i := 0; i < n && i < len(got); i++ {
			vrt.Assert(got[i] == sent[i]+1, "echoes arrive in order and intact")
		}
		vrt.Cover("e2es-echo")
	case 1:
		vrt.Assert(done && rerr == io.EOF && len(got) == 0, "a handler that returns early without error ends the stream cleanly at the client")
	case 2, 4:
		vrt.Assert(done && rerr != nil && rerr != io.EOF, "a failing handler fails the client's receive")
		if rerr != nil && rerr != io.EOF {
			vrt.Assert(rerr.Error() == "stop" && drpcerr.Code(rerr) == 7, "with exactly the handler's message and code")
		}
		vrt.Cover("e2es-error")
	case 3:
		vrt.Assert(!done && h.started && !h.returned, "client and handler are both waiting")
		if vrt.Bool("abruptDisconnect") {
			// the network drops: the client's transport dies under it
			trC.Close()
			vrt.Quiesce()
			vrt.Assert(done && rerr != nil, "a transport failure fails the pending client call")
			vrt.Assert(h.returned && h.recvErrSet && h.ctxDone, "the disconnect reaches the peer: its handler is released and its stream context cancelled")
			vrt.Assert(hx.IsClosedCh(conn.Closed()), "the client connection reports itself closed")
			vrt.Quiesce()
			vrt.Assert(serveDone, "the server side tears down")
			cd := false
			go func() { conn.Close(); cd = true }()
			vrt.Quiesce()
			vrt.Assert(cd, "Close after the failure returns")
			vrt.Assert(vrt.Unfinished() == 0, "no goroutine is left on either side")
			vrt.Cover("e2es-disconnect")
			return
		}
		ctx.Cancel(context.Canceled)
		vrt.Quiesce()
		vrt.Assert(done && rerr == context.Canceled, "the cancelled client call returns the context's error")
		vrt.Assert(h.returned && h.recvErrSet, "the peer handler's blocked receive is released once the cancellation or disconnect reaches it")
		vrt.Assert(h.ctxDone, "the peer handler's stream context is cancelled too")
		vrt.Cover("e2es-cancel")
	}
	_ = st.Close()
	vrt.Quiesce()
	if hx.IsClosedCh(conn.Closed()) {
		vrt.Assert(h.mode == 3 && !soft, "only a hard cancel ends the connection")
		vrt.Quiesce()
		vrt.Assert(serveDone, "the server side tears down when the client's transport is closed")
		vrt.Cover("e2es-closed")
	} else {
		preq := []byte{0x20}
		var presp []byte
		var perr error
		pd := false
		go func() { perr = conn.Invoke(hx.NewCtx(), "probe", enc, &preq, &presp); pd = true }()
		vrt.Quiesce()
		vrt.Assert(pd && perr == nil && len(presp) == 1 && presp[0] == 0x21, "the next RPC on the connection completes with its own response")
		vrt.Cover("e2es-probe")
		cd := false
		go func() { conn.Close(); cd = true }()
		vrt.Quiesce()
		vrt.Assert(cd && serveDone, "closing the client tears down both sides")
	}
	vrt.Assert(vrt.Unfinished() == 0, "no goroutine is left on either side")
}
