#!/bin/bash
# Runs the repository's pinned test-suite (all modules) offline; prints FAIL lines; exit 0 iff all pass.
export GOPROXY=off GOFLAGS=-mod=mod
REPO=${1:-/repo}
rc=0
for m in . internal/backcompat internal/backcompat/newservice internal/backcompat/newservicedefs internal/backcompat/oldservice internal/backcompat/oldservicedefs internal/backcompat/servicedefs internal/grpccompat internal/integration internal/twirpcompat; do
  out=$(cd $REPO/$m && go test -vet=off -count=1 -timeout 25m ./... 2>&1); r=$?
  if [ $r -ne 0 ]; then rc=1; echo "MODULE $m FAILED"; echo "$out" | grep -E "^(--- FAIL|FAIL|panic)" | head -20; fi
done
[ $rc -eq 0 ] && echo "BASELINE OK"
exit $rc
