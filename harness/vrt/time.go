package verifrt

import "time"

func timeAfter(seconds int) <-chan time.Time { return time.After(time.Duration(seconds) * time.Second) }

func nativeQuiesce() { time.Sleep(100 * time.Millisecond) }
func nativeYield()   { time.Sleep(time.Millisecond) }
