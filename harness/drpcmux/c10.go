package drpcmux

import (
	"context"

	"storj.io/drpc"
	"storj.io/drpc/drpcerr"
	vrt "storj.io/drpc/internal/verifrt"
)

type inMsg struct{ b []byte }
type outMsg struct{ b []byte }

type muxEnc struct{ failDecode bool }

var errUndecodable error = &hErr{"undecodable request", 0}

func (e muxEnc) Marshal(msg drpc.Message) ([]byte, error) { return msg.(*outMsg).b, nil }
func (e muxEnc) Unmarshal(buf []byte, msg drpc.Message) error {
	if e.failDecode {
		return errUndecodable
	}
	msg.(*inMsg).b = append([]byte(nil), buf...)
	return nil
}

type hErr struct {
	msg  string
	code uint64
}

func (e *hErr) Error() string { return e.msg }
func (e *hErr) Code() uint64  { return e.code }

// service with one unary and one stream method (the shapes generated code registers)
type svc struct {
	mode int
	resp *outMsg
	err  error
	got  []byte
}

func (s *svc) Echo(ctx context.Context, in *inMsg) (*outMsg, error) { return nil, nil }

type svcDesc struct{}

func (svcDesc) NumMethods() int { return 2 }
func (svcDesc) Method(n int) (string, drpc.Encoding, drpc.Receiver, interface{}, bool) {
	switch n {
	case 0:
		return "/svc/Echo", muxEnc{}, func(srv interface{}, ctx context.Context, in1, in2 interface{}) (drpc.Message, error) {
			s := srv.(*svc)
			s.got = in1.(*inMsg).b
			switch s.mode {
			case 0:
				return s.resp, nil
			case 1:
				return nil, s.err
			case 2:
				var typedNil *outMsg
				return typedNil, s.err
			case 3:
				return s.resp, s.err // partially built response plus an error
			default:
				return nil, nil
			}
		}, (*svc).Echo, true
	case 1:
		return "/svc/Strm", muxEnc{}, func(srv interface{}, ctx context.Context, in1, in2 interface{}) (drpc.Message, error) {
			s := srv.(*svc)
			if _, ok := in1.(drpc.Stream); !ok {
				return nil, &hErr{"stream handler did not get the stream", 1}
			}
			if s.mode == 1 || s.mode == 3 {
				return nil, s.err
			}
			return nil, nil
		}, (*svc).strm, true
	}
	return "", nil, nil, nil, false
}

func (s *svc) strm(stream drpc.Stream) error { return nil }

type recStream struct {
	req        []byte
	sent       [][]byte
	closeSends int
	failDecode bool
}

func (s *recStream) Context() context.Context { return nil }
func (s *recStream) MsgSend(msg drpc.Message, enc drpc.Encoding) error {
	b, err := enc.Marshal(msg)
	if err != nil {
		return err
	}
	s.sent = append(s.sent, b)
	return nil
}
func (s *recStream) MsgRecv(msg drpc.Message, enc drpc.Encoding) error {
	return muxEnc{failDecode: s.failDecode}.Unmarshal(s.req, msg)
}
func (s *recStream) CloseSend() error { s.closeSends++; return nil }
func (s *recStream) Close() error     { return nil }

// VerifH_MuxDispatch: the real Mux.Register / HandleRPC (reflection-based dispatch) for a
// unary and a stream method: unknown rpc and undecodable request produce errors (which the
// server then sends with SendError), a handler error wins over any response, a response
// without error is sent exactly once, nothing else is sent.
func VerifH_MuxDispatch() {
	m := New()
	s := &svc{mode: vrt.Choice("mode", 5), resp: &outMsg{b: vrt.BytesN("resp", 2)}, err: &hErr{vrt.Str("emsg", 2), vrt.U64("ecode")}}
	vrt.Assert(m.Register(s, svcDesc{}) == nil, "a well-formed description registers")
	which := vrt.Choice("rpc", 3)
	st := &recStream{req: vrt.BytesN("req", 2), failDecode: vrt.Bool("undecodable")}
	rpc := []string{"/svc/Echo", "/svc/Strm", "/svc/Nope"}[which]
	err := m.HandleRPC(st, rpc)
	switch {
	case which == 2:
		vrt.Assert(err != nil && drpc.ProtocolError.Has(err), "an unknown rpc is a protocol error")
		vrt.Assert(len(st.sent) == 0 && st.closeSends == 0, "nothing is sent for an unknown rpc")
		vrt.Cover("mux-unknown")
	case which == 0 && st.failDecode:
		vrt.Assert(err != nil, "an undecodable request fails the rpc")
		if err != nil {
			vrt.Assert(err.Error() == "undecodable request", "with the decoder's message")
		}
		vrt.Assert(len(st.sent) == 0 && st.closeSends == 0, "the handler is not run and nothing is sent")
		vrt.Cover("mux-undecodable")
	case which == 0:
		vrt.Assert(len(s.got) == 2 && s.got[0] == st.req[0] && s.got[1] == st.req[1], "the handler receives the decoded request")
		switch s.mode {
		case 0:
			vrt.Assert(err == nil, "a response without error never yields an error")
			vrt.Assert(len(st.sent) == 1 && len(st.sent[0]) == 2 && st.sent[0][0] == s.resp.b[0] && st.sent[0][1] == s.resp.b[1], "the response is sent exactly once, intact")
			vrt.Cover("mux-response")
		case 1, 2, 3:
			vrt.Assert(err != nil, "a handler error fails the rpc even when a response value is returned too")
			if err != nil {
				vrt.Assert(err.Error() == s.err.Error() && drpcerr.Code(err) == drpcerr.Code(s.err), "with exactly the handler's message and code")
			}
			vrt.Assert(len(st.sent) == 0, "no response is sent for a failed rpc")
			vrt.Cover("mux-error")
		default:
			vrt.Assert(err == nil && len(st.sent) == 0 && st.closeSends == 1, "no response and no error: half-close")
		}
	default:
		if s.mode == 1 || s.mode == 3 {
			vrt.Assert(err != nil && err.Error() == s.err.Error(), "a stream handler's error is returned")
		} else {
			vrt.Assert(err == nil && st.closeSends == 1, "a stream handler that returns nil half-closes")
		}
		vrt.Cover("mux-stream")
	}
}
