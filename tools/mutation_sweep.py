#!/usr/bin/env python3
"""Systematic mutation sweep (our own complement to the agents' seeded changes).

usage: tools/mutation_sweep.py <out.json> <file> [<file> ...]   (files relative to the repo root)

Phase 1: every mutant of every file (tools/mutate operators) is built and run against the
repository's own tests (root module twice + internal/integration) in scratch worktrees;
mutants that fail to build or that the existing tests kill are dropped.
Phase 2: for each surviving mutant the quick tier of the checks that cover the file's
package is run against the mutated tree (evidence to scratch files), stopping at the first
check that reports a violation.  Result: which check catches which surviving mutant, and the
list of undetected survivors (equivalent mutants or gaps) for manual triage.
"""
import json, os, subprocess, sys, concurrent.futures as cf, tempfile, shutil, re

ENV = dict(os.environ, GOFLAGS='-mod=mod', GOPROXY='off', GOSUMDB='off', GOTOOLCHAIN='local')
CHECKS = {
 'drpcwire': ['C08','C09','C18','C07','C13','C05','C01'],
 'drpcstream': ['C03','C07','C04','C10','C01','C06','C02','C05','C12'],
 'drpcmanager': ['C12','C02','C06','C04','C05','C11','C13','C01'],
 'drpcconn': ['C02','C04','C05','C06','C11','C12','C01'],
 'drpcserver': ['C06','C12','C05','C10','C01'],
 'drpcpool': ['C15'], 'drpcmigrate': ['C16'], 'drpcsignal': ['C19','C03','C12'],
 'drpcmetadata': ['C11','C13'], 'drpcerr': ['C10','C13'], 'drpcctx': ['C12'],
 'drpcmux': ['C10'], 'drpchttp': ['C14','C13'], 'drpcenc': ['C02','C01'],
}

def sh(cmd, cwd=None, env=ENV, timeout=900):
    try:
        p = subprocess.run(cmd, shell=True, cwd=cwd, env=env, capture_output=True, text=True, timeout=timeout)
        return p.returncode, p.stdout + p.stderr
    except subprocess.TimeoutExpired:
        return 124, 'timeout'

def worktree(name):
    d = f'/tmp/mut_wt_{name}'
    sh(f'git -C /repo worktree remove --force {d}')
    rc, out = sh(f'git -C /repo worktree add --detach -f {d} HEAD')
    assert rc == 0, out
    return d

def survive(args):
    wt, f, i, line, desc = args
    sh('git checkout -q -- .', cwd=wt)
    rc, out = sh(f'/verif/bin/mutate -file {wt}/{f} -n {i} -o {wt}/{f}')
    if rc != 0: return (f, i, line, desc, 'mutate-failed')
    rc, out = sh('go build ./... && go vet ./' + os.path.dirname(f) + '/', cwd=wt, timeout=300)
    if rc != 0: return (f, i, line, desc, 'no-build')
    for rep in range(2):
        rc, out = sh('go test -vet=off -count=1 -timeout 120s ./...', cwd=wt, timeout=400)
        if rc != 0: return (f, i, line, desc, 'killed-by-tests')
    env = dict(ENV); env.pop('GOTOOLCHAIN'); env.pop('GOSUMDB')
    rc, out = sh('go test -vet=off -count=1 -timeout 240s ./...', cwd=wt + '/internal/integration', env=env, timeout=600)
    if rc != 0: return (f, i, line, desc, 'killed-by-tests')
    return (f, i, line, desc, 'survived')

def detect(args):
    wt, f, i, line, desc = args
    sh('git checkout -q -- .', cwd=wt)
    sh(f'/verif/bin/mutate -file {wt}/{f} -n {i} -o {wt}/{f}')
    pkg = f.split('/')[0]
    tried = []
    for cid in CHECKS.get(pkg, []):
        env = dict(os.environ, VERIF_REPO=wt, VERIF_ONLY='VerifH_', VERIF_NO_WITNESS='1', GOSMT_TIMEOUT_CAP='600')
        rc, out = sh(f'/verif/bin/check {cid} quick', cwd='/verif', env=env, timeout=3000)
        tried.append((cid, rc))
        if rc == 1 and 'VIOLATION' in out:
            lab = re.findall(r'label="([^"]+)"', out)[:2]
            return (f, i, line, desc, 'caught', cid, lab)
    incon = [c for c, r in tried if r not in (0, 1)]
    return (f, i, line, desc, 'inconclusive' if incon else 'undetected', ','.join(incon), [])

def main():
    out, files = sys.argv[1], sys.argv[2:]
    jobs = []
    for f in files:
        rc, o = sh(f'/verif/bin/mutate -file /repo/{f} -list')
        for l in o.strip().split('\n'):
            if not l: continue
            i, line, desc = l.split('\t')
            jobs.append((f, int(i), int(line), desc))
    n1 = int(os.environ.get('SWEEP_JOBS1', '6')); n2 = int(os.environ.get('SWEEP_JOBS2', '2'))
    wts = [worktree(f'a{k}') for k in range(n1)]
    res1 = []
    # round-robin the worktrees: each worker owns one
    def worker(k):
        r = []
        for idx in range(k, len(jobs), n1):
            r.append(survive((wts[k],) + jobs[idx]))
        return r
    with cf.ThreadPoolExecutor(n1) as ex:
        for r in ex.map(worker, range(n1)): res1 += r
    surv = [r for r in res1 if r[4] == 'survived']
    print(f'{len(jobs)} mutants: {sum(r[4]=="no-build" for r in res1)} do not build, {sum(r[4]=="killed-by-tests" for r in res1)} killed by the existing tests, {len(surv)} survive', flush=True)
    res2 = []
    def worker2(k):
        r = []
        for idx in range(k, len(surv), n2):
            x = detect((wts[k],) + surv[idx][:4])
            print('  ', x, flush=True)
            r.append(x)
        return r
    with cf.ThreadPoolExecutor(n2) as ex:
        for r in ex.map(worker2, range(n2)): res2 += r
    for w in wts: sh(f'git -C /repo worktree remove --force {w}')
    json.dump({'phase1': res1, 'phase2': res2}, open(out, 'w'), indent=1)
    und = [r for r in res2 if r[4] != 'caught']
    print(f'survivors: {len(surv)}, caught by the checks: {len(res2)-len(und)}, not caught: {len(und)}')
    for r in und: print('   NOT CAUGHT', r)

main()
