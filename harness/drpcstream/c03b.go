package drpcstream

import (
	"context"

	"storj.io/drpc/drpcwire"
	vrt "storj.io/drpc/internal/verifrt"
)

const (
	aHPError = iota
	aHPCancel
	aCancel
	aHPClose
	aHPCloseSend
	aClose
	aCloseSend
	aSendError
	aSendCancel
	aMsgSend2
	numAOps
)

// VerifH_StreamParkedWrite: thread W is inside MsgSend (3 frames, each flushed on its own)
// and parked in the transport on its first write; thread A then issues one operation from
// the alphabet; the transport is released afterwards. Checked at both quiescent points.
func VerifH_StreamParkedWrite() {
	sid := uint64(1)
	gate := false
	tr := &recTransport{gate: &gate}
	wr := drpcwire.NewWriter(tr, 1) // every frame is flushed on its own
	s := NewWithOptions(context.Background(), sid, wr, Options{SplitSize: 1})
	tr.afterTerm = s
	aop := vrt.Int("aop")
	vrt.Assume(aop >= 0 && aop < numAOps)

	msg := vrt.BytesN("msg", 3)
	var wErr, aErr error
	var wDone, aDone, aBusy bool
	go func() {
		wErr = s.MsgSend(&msg, byteEnc{})
		wDone = true
	}()
	go func() {
		vrt.WaitFor(&tr.parked)
		switch aop {
		case aHPError:
			aErr = s.HandlePacket(drpcwire.Packet{ID: drpcwire.ID{Stream: sid, Message: 1}, Kind: drpcwire.KindError, Data: []byte{0, 0, 0, 0, 0, 0, 0, 7, 'x'}})
		case aHPCancel:
			aErr = s.HandlePacket(drpcwire.Packet{ID: drpcwire.ID{Stream: sid, Message: 1}, Kind: drpcwire.KindCancel, Control: true})
		case aCancel:
			s.Cancel(context.Canceled)
		case aHPClose:
			aErr = s.HandlePacket(drpcwire.Packet{ID: drpcwire.ID{Stream: sid, Message: 1}, Kind: drpcwire.KindClose})
		case aHPCloseSend:
			aErr = s.HandlePacket(drpcwire.Packet{ID: drpcwire.ID{Stream: sid, Message: 1}, Kind: drpcwire.KindCloseSend})
		case aClose:
			aErr = s.Close()
		case aCloseSend:
			aErr = s.CloseSend()
		case aSendError:
			aErr = s.SendError(&appErr{msg: "e", code: 5})
		case aSendCancel:
			aBusy, aErr = s.SendCancel(context.Canceled)
		case aMsgSend2:
			m2 := []byte{9}
			aErr = s.MsgSend(&m2, byteEnc{})
		}
		aDone = true
	}()

	// ---- first quiescent point: W parked in the transport ----
	vrt.Quiesce()
	vrt.Assert(tr.parked && !wDone, "W is parked inside the transport write")
	needsWrite := aop == aClose || aop == aCloseSend || aop == aSendError || aop == aMsgSend2
	vrt.Assert(aDone == !needsWrite, "exactly the operations that must wait for the in-flight write are blocked")
	vrt.Assert(!s.IsFinished(), "not finished while a write is in flight")
	doneCtx := false
	select {
	case <-s.Context().Done():
		doneCtx = true
	default:
	}
	vrt.Assert(!doneCtx, "context not done while a write is in flight")
	terminating := aop == aHPError || aop == aHPCancel || aop == aCancel || aop == aHPClose
	vrt.Assert(s.IsTerminated() == terminating, "terminated (not finished) as soon as the terminating event is processed")
	if aop == aSendCancel {
		vrt.Assert(aBusy && aErr == nil, "SendCancel reports busy while a write is in flight")
	}
	vrt.Cover("parked-quiescent-1")

	// ---- release the transport ----
	gate = true
	vrt.Quiesce()
	vrt.Assert(wDone && aDone, "everything returns once the transport lets go")
	vrt.Assert(!tr.reenter, "transport never sees two writes in flight")
	vrt.Assert(!tr.lateWrite, "no write starts after the stream reported finished")

	r := &refStream{}
	switch aop {
	case aHPError, aHPCancel, aCancel, aHPClose:
		// the send side was closed under W: W stops after the frame in flight
		if aop == aHPClose {
			vrt.Assert(classify(wErr) == cRemoteClosed, "interrupted send reports the remote close")
		} else {
			vrt.Assert(classify(wErr) == cEOF || (aop == aCancel && classify(wErr) == cCanceled), "interrupted send reports end-of-stream")
		}
		vrt.Assert(tr.writes == 1, "nothing is emitted after termination except the frame already in flight")
		vrt.Assert(s.IsFinished(), "finished once the in-flight write returned")
		vrt.Cover("parked-interrupted")
	case aHPCloseSend:
		vrt.Assert(classify(wErr) == cNil, "remote half-close does not disturb the send")
		r.emit(drpcwire.KindMessage, false, msg)
		vrt.Assert(!s.IsTerminated(), "stream stays open")
	case aSendCancel:
		vrt.Assert(classify(wErr) == cNil, "busy SendCancel changes nothing")
		r.emit(drpcwire.KindMessage, false, msg)
	case aClose:
		vrt.Assert(classify(wErr) == cNil && classify(aErr) == cNil, "Close waits for the send, both succeed")
		r.emit(drpcwire.KindMessage, false, msg)
		r.emit(drpcwire.KindClose, false, nil)
		vrt.Assert(s.IsFinished(), "finished after Close")
	case aCloseSend:
		vrt.Assert(classify(wErr) == cNil && classify(aErr) == cNil, "CloseSend waits for the send, both succeed")
		r.emit(drpcwire.KindMessage, false, msg)
		r.emit(drpcwire.KindCloseSend, false, nil)
	case aSendError:
		vrt.Assert(classify(wErr) == cNil && classify(aErr) == cNil, "SendError waits for the send, both succeed")
		r.emit(drpcwire.KindMessage, false, msg)
		r.emit(drpcwire.KindError, false, []byte{0, 0, 0, 0, 0, 0, 0, 5, 'e'})
		vrt.Assert(s.IsFinished(), "finished after SendError")
	case aMsgSend2:
		vrt.Assert(classify(wErr) == cNil && classify(aErr) == cNil, "second sender waits, both succeed")
		r.emit(drpcwire.KindMessage, false, msg)
		r.emit(drpcwire.KindMessage, false, []byte{9})
	}
	if len(r.out) > 0 {
		checkLog(tr.log, sid, r.out)
	}
	vrt.Cover("parked-end")
}
