#!/usr/bin/env python3
# Renders the seeded-change table for DESIGN.md §8 from seeded/*/meta.json and a seed_matrix log.
import json, sys, os, re
log = sys.argv[1] if len(sys.argv) > 1 else '/tmp/seed_matrix.log'
res = {}
for line in open(log):
    m = re.match(r'(\S+): (.*)', line.strip())
    if m: res[m.group(1)] = m.group(2)
rows = []
for sd in sorted(os.listdir('/verif/seeded')):
    meta = json.load(open(f'/verif/seeded/{sd}/meta.json'))
    r = res.get(sd, 'not run')
    caught = [p.split(':')[0] for p in r.split() if 'violations=' in p and not p.endswith('violations=0')]
    files = ','.join(os.path.basename(f) for f in meta.get('files_changed', []))
    summ = meta.get('summary', '').replace('|', '/').replace('\n', ' ')
    if len(summ) > 150: summ = summ[:147] + '...'
    verdict = ('caught by ' + ', '.join(caught)) if caught else ('**missed** (' + meta.get('note', r) + ')')
    rows.append(f"| {sd} | {meta['property']} | {files} | {summ} | {verdict} |")
print("| seed | property | file | change | result (quick tier) |")
print("|------|----------|------|--------|---------------------|")
print('\n'.join(rows))
