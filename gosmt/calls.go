package main

import (
	"fmt"
	"go/token"
	"go/types"
	"strings"

	"golang.org/x/tools/go/ssa"
)

func (e *Engine) execCall(st *State, th *Thread, fr *Frame, in ssa.Instruction, c *ssa.CallCommon) {
	args := make([]Value, 0, len(c.Args)+1)
	for _, a := range c.Args {
		args = append(args, e.val(st, fr, a))
	}
	e.invoke(st, th, fr, c, e.val(st, fr, c.Value), args, in)
}

// invoke performs a call described by c with already evaluated callee value and args.
func (e *Engine) invoke(st *State, th *Thread, fr *Frame, c *ssa.CallCommon, callee Value, args []Value, in ssa.Instruction) {
	e.invokeC(st, th, fr, c, callee, args, nil)
}

// invokeC is invoke with a commit hook that runs once the call can no longer be re-executed.
func (e *Engine) invokeC(st *State, th *Thread, fr *Frame, c *ssa.CallCommon, callee Value, args []Value, commit func()) {
	if c.IsInvoke() {
		recv, ok := callee.(IfaceV)
		if !ok {
			panic(engErr("invoke on %T", callee))
		}
		if recv.t == nil {
			panic(goPanic{"nil pointer dereference (method call on nil interface " + c.Method.Name() + ")"})
		}
		fn := e.prog.LookupMethod(recv.t, c.Method.Pkg(), c.Method.Name())
		if fn == nil {
			panic(engErr("method %s not found on %v", c.Method.Name(), recv.t))
		}
		args = append([]Value{recv.v}, args...)
		e.callFn(st, th, fn, args, nil, c.Pos(), commit)
		return
	}
	fv, ok := callee.(FuncV)
	if !ok {
		panic(engErr("call of %T", callee))
	}
	if fv.bi != nil {
		res := e.builtin(st, th, fv.bi, args, c)
		if commit != nil {
			commit()
		}
		e.deliverResult(st, th, res)
		return
	}
	if fv.fn == nil {
		panic(goPanic{"call of nil function"})
	}
	e.callFn(st, th, fv.fn, args, fv.binds, c.Pos(), commit)
}

func fnName(fn *ssa.Function) string {
	if o := fn.Origin(); o != nil {
		return o.String()
	}
	return fn.String()
}

func (e *Engine) callFn(st *State, th *Thread, fn *ssa.Function, args []Value, binds []Value, pos token.Pos, commit func()) {
	name := fnName(fn)
	if sub, ok := e.subst[name]; ok {
		fn = sub
		name = fnName(fn)
	} else if sub, ok := e.recvSubst[name]; ok {
		args = append([]Value{IfaceV{t: fn.Signature.Recv().Type(), v: args[0]}}, args[1:]...)
		fn = sub
		name = fnName(fn)
	}
	if fn.Synthetic == "package initializer" {
		if e.initOK == nil || fn.Pkg == nil || !e.initOK(fn.Pkg) {
			if commit != nil {
				commit()
			}
			e.deliverResult(st, th, nil)
			return
		}
	}
	if h, ok := intrinsics[name]; ok {
		e.funcsUsed["intrinsic:"+name] = true
		res := h(e, st, th, args, pos)
		if commit != nil {
			commit()
		}
		if _, pushed := res.(pushedFrame); pushed {
			return
		}
		e.deliverResult(st, th, res)
		return
	}
	if len(fn.Blocks) == 0 {
		// wrappers / thunks are synthesized lazily by go/ssa and have bodies; anything else is external
		panic(engErr("no model for external function %s (called at %s)", name, posOf(e.prog, pos)))
	}
	if len(th.frames) > e.cfg.MaxDepth {
		panic(inconclusive{"call depth limit"})
	}
	nf := e.newFrame(fn, args, binds)
	if commit != nil {
		commit()
	}
	th.frames = append(th.frames, nf)
	st.steps++
}

// ---- builtins ----

func (e *Engine) builtin(st *State, th *Thread, b *ssa.Builtin, args []Value, c *ssa.CallCommon) Value {
	ts := e.ts
	switch b.Name() {
	case "len":
		switch v := args[0].(type) {
		case SliceV:
			return v.len
		case *StrV:
			return v.len
		case MapV:
			if v.obj == 0 {
				return e.i64(0)
			}
			return e.i64(uint64(len(st.heap[v.obj].(*MapData).keys)))
		case ChanV:
			if v.obj == 0 {
				return e.i64(0)
			}
			return e.i64(uint64(len(st.heap[v.obj].(*ChanData).buf)))
		case *ArrV:
			return e.i64(uint64(v.n))
		case Ptr:
			return e.i64(uint64(c.Args[0].Type().Underlying().(*types.Pointer).Elem().Underlying().(*types.Array).Len()))
		}
	case "cap":
		switch v := args[0].(type) {
		case SliceV:
			return v.cap
		case ChanV:
			if v.obj == 0 {
				return e.i64(0)
			}
			return e.i64(uint64(st.heap[v.obj].(*ChanData).cap))
		case *ArrV:
			return e.i64(uint64(v.n))
		}
	case "append":
		return e.appendOp(st, args[0].(SliceV), args[1], c.Args[0].Type())
	case "copy":
		return e.copyOp(st, args[0].(SliceV), args[1])
	case "delete":
		m := args[0].(MapV)
		if m.obj == 0 {
			return nil
		}
		md := st.heap[m.obj].(*MapData)
		if i := e.mapFind(st, md, args[1]); i >= 0 {
			nm := &MapData{}
			for j := range md.keys {
				if j != i {
					nm.keys = append(nm.keys, md.keys[j])
					nm.vals = append(nm.vals, md.vals[j])
				}
			}
			st.heap[m.obj] = nm
		}
		return nil
	case "close":
		ch := args[0].(ChanV)
		if ch.obj == 0 {
			panic(goPanic{"close of nil channel"})
		}
		cd := st.heap[ch.obj].(*ChanData)
		if cd.closed {
			panic(goPanic{"close of closed channel"})
		}
		nc := *cd
		nc.closed = true
		st.heap[ch.obj] = &nc
		e.release(st, th, fmt.Sprintf("ch:%d", ch.obj))
		return nil
	case "print", "println":
		return nil
	case "recover":
		return IfaceV{}
	case "min", "max":
		r := args[0].(*Term)
		_, signed, _ := intWidth(c.Args[0].Type())
		for _, a := range args[1:] {
			x := a.(*Term)
			var lt *Term
			if signed {
				lt = ts.Slt(x, r)
			} else {
				lt = ts.Ult(x, r)
			}
			if b.Name() == "max" {
				lt = ts.Not(ts.Or(lt, ts.Eq(x, r)))
			}
			r = ts.Ite(lt, x, r)
		}
		return r
	}
	panic(engErr("builtin %s on %T", b.Name(), args[0]))
}

func (e *Engine) appendOp(st *State, s SliceV, tv Value, st0 types.Type) Value {
	ts := e.ts
	var n int
	var get func(i int) Value
	switch t := tv.(type) {
	case SliceV:
		n = e.concInt(st, t.len)
		if n > 0 {
			toff := e.concInt(st, t.off)
			tarr := st.sliceArr(t)
			get = func(i int) Value { return tarr.get(toff + i) }
		}
	case *StrV:
		n = e.concInt(st, t.len)
		toff := e.concInt(st, t.off)
		get = func(i int) Value { return t.arr.get(toff + i) }
	default:
		panic(engErr("append of %T", tv))
	}
	if n == 0 {
		return s
	}
	sl := e.concInt(st, s.len)
	sc := e.concInt(st, s.cap)
	if tsl, ok := tv.(SliceV); ok {
		e.raceAccess(st, tsl.obj, false)
	}
	if sl+n <= sc {
		e.raceAccess(st, s.obj, true)
		soff := e.concInt(st, s.off)
		arr := st.sliceArr(s)
		idx := make([]int, n)
		vals := make([]Value, n)
		for i := 0; i < n; i++ {
			idx[i] = soff + sl + i
			vals[i] = get(i)
		}
		st.setSliceArr(s, arr.setMany(idx, vals))
		return SliceV{obj: s.obj, path: s.path, off: s.off, len: e.i64(uint64(sl + n)), cap: s.cap}
	}
	// grow
	nc := sl + n
	if sc > 0 && 2*sc > nc {
		nc = 2 * sc
	}
	if nc > e.cfg.MaxAlloc {
		panic(inconclusive{fmt.Sprintf("append: allocation of %d exceeds engine limit", nc)})
	}
	m := make(map[int]Value, sl+n)
	if sl > 0 {
		soff := e.concInt(st, s.off)
		arr := st.sliceArr(s)
		e.raceAccess(st, s.obj, false)
		for i := 0; i < sl; i++ {
			if v, ok := arr.m[soff+i]; ok {
				m[i] = v
			}
		}
	}
	for i := 0; i < n; i++ {
		m[sl+i] = get(i)
	}
	obj := st.alloc(&ArrV{n: nc, def: e.zero(elemType(st0)), m: m})
	e.markLibArray(st, obj)
	_ = ts
	return SliceV{obj: obj, off: e.i64(0), len: e.i64(uint64(sl + n)), cap: e.i64(uint64(nc))}
}

func (e *Engine) copyOp(st *State, d SliceV, sv Value) Value {
	dl := e.concInt(st, d.len)
	var n int
	var get func(i int) Value
	switch s := sv.(type) {
	case SliceV:
		n = e.concInt(st, s.len)
		if n > 0 {
			soff := e.concInt(st, s.off)
			sarr := st.sliceArr(s)
			get = func(i int) Value { return sarr.get(soff + i) }
		}
	case *StrV:
		n = e.concInt(st, s.len)
		soff := e.concInt(st, s.off)
		get = func(i int) Value { return s.arr.get(soff + i) }
	}
	if dl < n {
		n = dl
	}
	if n == 0 {
		return e.i64(0)
	}
	doff := e.concInt(st, d.off)
	if ssl, ok := sv.(SliceV); ok {
		e.raceAccess(st, ssl.obj, false)
	}
	e.raceAccess(st, d.obj, true)
	idx := make([]int, n)
	vals := make([]Value, n)
	for i := 0; i < n; i++ {
		idx[i] = doff + i
		vals[i] = get(i) // reads happen before writes (memmove semantics)
	}
	st.setSliceArr(d, st.sliceArr(d).setMany(idx, vals))
	return e.i64(uint64(n))
}

// ---- go statements ----

func (e *Engine) execGo(st *State, th *Thread, fr *Frame, in *ssa.Go) {
	c := in.Common()
	args := make([]Value, 0, len(c.Args)+1)
	for _, a := range c.Args {
		args = append(args, e.val(st, fr, a))
	}
	callee := e.val(st, fr, c.Value)
	e.spawn(st, c, callee, args, posOf(e.prog, in.Pos()))
}

func (e *Engine) spawn(st *State, c *ssa.CallCommon, callee Value, args []Value, name string) *Thread {
	nt := &Thread{id: len(st.threads), name: name}
	st.threads = append(st.threads, nt)
	if e.cfg.Race {
		parent := st.thread()
		pvc := e.vcOf(st, parent)
		nt.vc = append([]int(nil), pvc...)
		for len(nt.vc) <= nt.id {
			nt.vc = append(nt.vc, 0)
		}
		nt.vc[nt.id] = 1
		parent.vc[parent.id]++
	}
	if len(st.threads) > e.cfg.MaxThreads {
		panic(inconclusive{"thread limit exceeded"})
	}
	// the new thread gets a bootstrap: we push the callee frame directly
	saveCur := st.cur
	st.cur = nt.id
	if c != nil && c.IsInvoke() {
		recv := callee.(IfaceV)
		if recv.t == nil {
			panic(goPanic{"go: nil interface method"})
		}
		fn := e.prog.LookupMethod(recv.t, c.Method.Pkg(), c.Method.Name())
		args = append([]Value{recv.v}, args...)
		nt.frames = append(nt.frames, e.newFrame(fn, args, nil))
	} else {
		fv := callee.(FuncV)
		if fv.fn == nil {
			panic(goPanic{"go of nil func"})
		}
		fn := fv.fn
		if sub, ok := e.subst[fnName(fn)]; ok {
			fn = sub
		}
		if _, ok := intrinsics[fnName(fn)]; ok {
			panic(engErr("go of intrinsic %s", fnName(fn)))
		}
		nt.frames = append(nt.frames, e.newFrame(fn, args, fv.binds))
	}
	st.cur = saveCur
	return nt
}

// ---- helpers used by intrinsics ----

func (e *Engine) freshVar(st *State, name string, w int) *Term {
	cnt := st.names[name]
	st.names[name] = cnt + 1
	full := name
	if cnt > 0 {
		full = fmt.Sprintf("%s#%d", name, cnt+1)
	}
	v := e.ts.Var(full, w)
	st.vars = append(st.vars, v)
	return v
}

func (e *Engine) mustConstString(st *State, v Value) string {
	s, ok := v.(*StrV)
	if !ok {
		panic(engErr("expected string, got %T", v))
	}
	str, ok := e.concreteString(st, s)
	if !ok {
		panic(engErr("expected concrete string"))
	}
	return str
}

func isVerifPkg(name string) bool {
	return strings.HasPrefix(name, "storj.io/drpc/internal/verifrt")
}
