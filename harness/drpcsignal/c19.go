package drpcsignal

import (
	vrt "storj.io/drpc/internal/verifrt"
)

type sigErr struct{ n int }

func (e *sigErr) Error() string { return "sig" }

func isClosed(ch chan struct{}) bool {
	select {
	case <-ch:
		return true
	default:
		return false
	}
}

// VerifH_SignalSetSetGet: two concurrent setters and an observer (fine-grained: every
// load/store of the Signal's fields is a switch point).
func VerifH_SignalSetSetGet() {
	s := new(Signal)
	vrt.Share(s)
	var e1, e2 error = &sigErr{1}, &sigErr{2}
	var ok1, ok2, done1, done2 bool
	go func() { ok1 = s.Set(e1); done1 = true }()
	go func() { ok2 = s.Set(e2); done2 = true }()
	// observer
	early, earlySet := s.Get()
	if earlySet {
		vrt.Assert(early == e1 || early == e2, "Get reports a value some Set stored")
		vrt.Assert(s.IsSet(), "IsSet after Get reported set")
		vrt.Assert(s.Err() == early, "Err equals Get once set")
		vrt.Cover("observer-saw-set-early")
	}
	vrt.Quiesce()
	vrt.Assert(done1 && done2, "both Set calls return")
	vrt.Assert(ok1 != ok2, "exactly one Set wins")
	winner := e2
	if ok1 {
		winner = e1
	}
	late, lateSet := s.Get()
	vrt.Assert(lateSet && late == winner, "observers see the winner's error")
	if earlySet {
		vrt.Assert(early == winner, "an early observer already saw the winner")
	}
	vrt.Assert(isClosed(s.Signal()), "the notification channel is closed after Set")
	vrt.Cover("setset-end")
	if ok2 {
		vrt.Cover("second-setter-wins")
	}
}

// VerifH_SignalSetSignal: a setter races with a channel creator/waiter.
func VerifH_SignalSetSignal() {
	s := new(Signal)
	vrt.Share(s)
	var e1 error = &sigErr{1}
	var done1, done2, sawSet bool
	var ch chan struct{}
	go func() { s.Set(e1); done1 = true }()
	go func() {
		ch = s.Signal()
		vrt.Assert(ch != nil, "Signal never returns nil")
		if isClosed(ch) {
			// closed only after the value is visible
			err, ok := s.Get()
			vrt.Assert(ok && err == e1, "channel closed only after the value is visible")
			sawSet = true
		}
		done2 = true
	}()
	vrt.Quiesce()
	vrt.Assert(done1 && done2, "Set and Signal return")
	vrt.Assert(ch != nil && isClosed(ch), "a channel obtained at any time is closed once Set happened (no lost wake-up)")
	vrt.Assert(ch == s.Signal(), "all observers get the same channel")
	vrt.Cover("setsignal-end")
	if sawSet {
		vrt.Cover("waiter-saw-closed")
	} else {
		vrt.Cover("waiter-saw-open")
	}
}

// VerifH_SignalWait: Wait blocked before Set is woken (no lost wake-up).
func VerifH_SignalWait() {
	s := new(Signal)
	vrt.Share(s)
	var e1 error = &sigErr{1}
	var waited, setDone bool
	go func() { s.Wait(); waited = true; vrt.Assert(s.Err() == e1, "after Wait the error is visible") }()
	go func() { s.Set(e1); setDone = true }()
	vrt.Quiesce()
	vrt.Assert(setDone, "Set returns")
	vrt.Assert(waited, "Wait returns once Set happened")
	vrt.Cover("wait-end")
}

// VerifH_ChanCloseGet: Close races with Get callers: everybody sees the same non-nil
// channel and it is closed exactly once (no panic) when all have returned.
func VerifH_ChanCloseGet() {
	c := new(Chan)
	vrt.Share(c)
	var ch1, ch2 chan struct{}
	var d0, d1, d2 bool
	go func() { c.Close(); d0 = true }()
	go func() { ch1 = c.Get(); d1 = true }()
	go func() { ch2 = c.Get(); d2 = true }()
	vrt.Quiesce()
	vrt.Assert(d0 && d1 && d2, "Close and Get return")
	vrt.Assert(ch1 != nil && ch1 == ch2, "all Get calls return the same non-nil channel")
	vrt.Assert(isClosed(ch1), "the channel every observer holds is closed after Close")
	vrt.Assert(c.Get() == ch1, "later Get returns the same channel")
	vrt.Cover("chan-close-get-end")
}

// VerifH_ChanMakeSendRecv: Make(1) before use gives a 1-slot semaphore; Make after first
// use is a no-op; Send/Recv pair up without losing anyone.
func VerifH_ChanMakeSendRecv() {
	c := new(Chan)
	vrt.Share(c)
	c.Make(1)
	var d1, d2, d3 bool
	go func() { c.Send(); d1 = true }()
	go func() { c.Send(); c.Recv(); d2 = true }()
	go func() { c.Make(5); c.Recv(); d3 = true }()
	vrt.Quiesce()
	vrt.Assert(d1 && d2 && d3, "matched Send/Recv all complete")
	vrt.Assert(cap(c.Get()) == 1, "Make after first use does not replace the channel")
	vrt.Assert(!c.Full(), "channel empty after matched operations")
	vrt.Cover("chan-sem-end")
}

// VerifH_ChanFreshRace: first users race (Send vs Recv vs Full) on a zero Chan: one
// channel is created, the unbuffered rendez-vous completes.
func VerifH_ChanFreshRace() {
	c := new(Chan)
	vrt.Share(c)
	var d1, d2 bool
	go func() { c.Send(); d1 = true }()
	go func() { c.Recv(); d2 = true }()
	got := c.Get()
	vrt.Quiesce()
	vrt.Assert(d1 && d2, "Send and Recv on a lazily created channel meet")
	vrt.Assert(got != nil && got == c.Get(), "a concurrent Get sees the one channel")
	vrt.Cover("chan-fresh-end")
}

// VerifH_ChanMakeRacesGet: on a fresh Chan, Make races the first Get and a later Close:
// whichever initialises first wins, every Get returns that one channel, and Close closes
// the channel the observers hold (no orphaned channel, no lost wake-up).
func VerifH_ChanMakeRacesGet() {
	c := new(Chan)
	vrt.Share(c)
	var g1 chan struct{}
	d1, d2 := false, false
	go func() { c.Make(1); d1 = true }()
	go func() { g1 = c.Get(); d2 = true }()
	vrt.Quiesce()
	vrt.Assert(d1 && d2, "Make and Get return")
	vrt.Assert(g1 != nil && g1 == c.Get(), "the channel handed out first is the channel everybody sees")
	c.Close()
	vrt.Assert(isClosed(g1), "Close closes the channel that was handed out (no lost wake-up)")
	vrt.Cover("chan-make-get-end")
}

// VerifH_SignalTwoSignalers: two goroutines make the first Signal() call concurrently while
// a third sets the signal: both get the same non-nil channel and both channels are closed
// once Set happened (no observer is left with a channel that never closes).
func VerifH_SignalTwoSignalers() {
	s := new(Signal)
	vrt.Share(s)
	var e1 error = &sigErr{1}
	var ch1, ch2 chan struct{}
	var d1, d2, d3 bool
	go func() { ch1 = s.Signal(); d1 = true }()
	go func() { ch2 = s.Signal(); d2 = true }()
	go func() { s.Set(e1); d3 = true }()
	vrt.Quiesce()
	vrt.Assert(d1 && d2 && d3, "Signal, Signal and Set return")
	vrt.Assert(ch1 != nil && ch2 != nil, "Signal never returns nil")
	vrt.Assert(ch1 == ch2, "concurrent first callers of Signal get the same channel")
	vrt.Assert(isClosed(ch1) && isClosed(ch2), "every channel handed out is closed once Set happened (no lost wake-up)")
	vrt.Assert(ch1 == s.Signal(), "later observers get that channel too")
	vrt.Cover("two-signalers-end")
}

// VerifH_SignalTwoWaiters: two goroutines block in Wait before the signal is set: both are woken.
func VerifH_SignalTwoWaiters() {
	s := new(Signal)
	vrt.Share(s)
	var e1 error = &sigErr{1}
	var w1, w2, setDone bool
	go func() { s.Wait(); w1 = true }()
	go func() { s.Wait(); w2 = true }()
	go func() { s.Set(e1); setDone = true }()
	vrt.Quiesce()
	vrt.Assert(setDone, "Set returns")
	vrt.Assert(w1 && w2, "every Wait returns once Set happened")
	vrt.Cover("two-waiters-end")
}
