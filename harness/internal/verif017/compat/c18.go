// Package compat holds the C18 harnesses: the released v0.0.17 wire code (verbatim copy,
// monkit task lines removed) against the current drpcwire.
package compat

import (
	"context"
	"io"

	"storj.io/drpc"
	newwire "storj.io/drpc/drpcwire"
	oldwire "storj.io/drpc/internal/verif017/drpcwire"
	vrt "storj.io/drpc/internal/verifrt"
)

// VerifH_ParserEquiv: on every byte string the old and the new ParseFrame agree.
func VerifH_ParserEquiv() {
	buf := vrt.Bytes("buf", vrt.Param("maxlen", 10))
	orem, ofr, ook, oerr := oldwire.ParseFrame(buf)
	nrem, nfr, nok, nerr := newwire.ParseFrame(buf)
	vrt.Assert(ook == nok && (oerr != nil) == (nerr != nil), "old and new parser give the same verdict")
	vrt.Assert(len(orem) == len(nrem), "old and new parser consume the same bytes")
	if ook && nok {
		vrt.Assert(uint8(ofr.Kind) == uint8(nfr.Kind) && ofr.Done == nfr.Done && ofr.Control == nfr.Control, "same kind and flags")
		vrt.Assert(ofr.ID.Stream == nfr.ID.Stream && ofr.ID.Message == nfr.ID.Message, "same ids")
		vrt.Assert(len(ofr.Data) == len(nfr.Data), "same payload length")
		for i := range ofr.Data {
			vrt.Assert(ofr.Data[i] == nfr.Data[i], "same payload bytes")
		}
		vrt.Cover("parser-equiv-ok")
	} else {
		vrt.Cover("parser-equiv-notok")
	}
}

// VerifH_EncoderEquiv: for every frame the old and the new AppendFrame emit the same bytes.
func VerifH_EncoderEquiv() {
	k := vrt.U8("kind")
	vrt.Assume(k < 64)
	s, m := vrt.U64("stream"), vrt.U64("message")
	done, control := vrt.Bool("done"), vrt.Bool("control")
	data := vrt.Bytes("data", 2)
	o := oldwire.AppendFrame(nil, oldwire.Frame{Data: data, ID: oldwire.ID{Stream: s, Message: m}, Kind: oldwire.Kind(k), Done: done, Control: control})
	n := newwire.AppendFrame(nil, newwire.Frame{Data: data, ID: newwire.ID{Stream: s, Message: m}, Kind: newwire.Kind(k), Done: done, Control: control})
	vrt.Assert(len(o) == len(n), "same encoded length")
	for i := range o {
		if i < len(n) {
			vrt.Assert(o[i] == n[i], "same encoded bytes")
		}
	}
	vrt.Cover("encoder-equiv-end")
}

type byteReader struct {
	data []byte
	pos  int
}

func (r *byteReader) Read(p []byte) (int, error) {
	if r.pos >= len(r.data) {
		return 0, io.EOF
	}
	n := copy(p, r.data[r.pos:])
	r.pos += n
	return n, nil
}

type pktOut struct {
	kind uint8
	sid  uint64
	mid  uint64
	data []byte
}

// VerifH_ReaderAgree: frame sequences a conforming writer can emit (ids non-decreasing
// from (1,1), one kind and one control flag per id, nothing after the done frame), with
// arbitrary control bits per packet: the old reader returns the packets the new reader
// returns minus the control-bit ones.
func VerifH_ReaderAgree() {
	nframes := vrt.Param("frames", 3)
	var stream []byte
	type idk struct {
		s, m    uint64
		kind    uint8
		control bool
		done    bool
	}
	var prev idk
	prev.done = true
	for i := 0; i < nframes; i++ {
		var f idk
		f.s = uint64(vrt.U8("s"))
		f.m = uint64(vrt.U8("m"))
		vrt.Assume(f.s >= 1 && f.s <= 2 && f.m >= 1 && f.m <= 3)
		f.kind = vrt.U8("kind")
		vrt.Assume(f.kind >= 1 && f.kind < 64)
		f.control = vrt.Bool("control")
		f.done = vrt.Bool("done")
		if i > 0 {
			same := f.s == prev.s && f.m == prev.m
			if same {
				vrt.Assume(!prev.done && f.kind == prev.kind && f.control == prev.control)
			} else {
				vrt.Assume(prev.s < f.s || (prev.s == f.s && prev.m < f.m))
			}
		}
		data := vrt.Bytes("d", 1)
		stream = newwire.AppendFrame(stream, newwire.Frame{Data: data, ID: newwire.ID{Stream: f.s, Message: f.m}, Kind: newwire.Kind(f.kind), Done: f.done, Control: f.control})
		prev = f
	}
	// new reader
	var newPkts []pktOut
	nr := newwire.NewReader(&byteReader{data: stream})
	var nerr error
	for i := 0; i <= nframes; i++ {
		p, err := nr.ReadPacket()
		if err != nil {
			nerr = err
			break
		}
		if !p.Control {
			newPkts = append(newPkts, pktOut{uint8(p.Kind), p.ID.Stream, p.ID.Message, append([]byte(nil), p.Data...)})
		}
	}
	// old reader
	var oldPkts []pktOut
	or := oldwire.NewReader(&byteReader{data: stream})
	var oerr error
	for i := 0; i <= nframes; i++ {
		p, err := or.ReadPacket()
		if err != nil {
			oerr = err
			break
		}
		oldPkts = append(oldPkts, pktOut{uint8(p.Kind), p.ID.Stream, p.ID.Message, append([]byte(nil), p.Data...)})
	}
	vrt.Assert(nerr == io.EOF, "the new reader accepts every producible sequence")
	vrt.Assert(oerr == io.EOF, "the old reader accepts every producible sequence")
	vrt.Assert(!drpc.ProtocolError.Has(oerr), "no protocol error in the old reader")
	vrt.Assert(len(oldPkts) == len(newPkts), "old reader returns the new reader's packets minus the control ones")
	for i := range oldPkts {
		if i < len(newPkts) {
			o, n := oldPkts[i], newPkts[i]
			vrt.Assert(o.kind == n.kind && o.sid == n.sid && o.mid == n.mid && len(o.data) == len(n.data), "same packet header")
			for j := range o.data {
				vrt.Assert(o.data[j] == n.data[j], "same packet payload")
			}
		}
	}
	vrt.Cover("reader-agree-end")
	if len(newPkts) > 0 {
		vrt.Cover("reader-agree-packets")
	}
}

// VerifH_SplitEmitOldCompat: packets written the way the current writer writes them
// (the real SplitN with a symbolic split size, AppendFrame per frame) - including packets
// with the control bit that span several frames - are decoded by the released reader to
// exactly the packets without the control bit, payloads whole, and by the current reader
// to all of them.
func VerifH_SplitEmitOldCompat() {
	npkts := vrt.Param("pkts", 2)
	maxdata := vrt.Param("maxdata", 3)
	var stream []byte
	var want, wantAll []pktOut
	var wantCtl []bool
	multiCtl, multiData := false, false // covers are raised at the end: a witness must satisfy every assumption
	mid := uint64(0)
	for i := 0; i < npkts; i++ {
		mid++
		kind := vrt.U8("kind")
		vrt.Assume(kind >= 1 && kind < 64)
		control := vrt.Bool("control")
		data := vrt.Bytes("d", maxdata)
		n := vrt.Int("n")
		vrt.Assume(n >= -1 && n <= 3 && n != 0)
		pkt := newwire.Packet{Data: data, ID: newwire.ID{Stream: 1, Message: mid}, Kind: newwire.Kind(kind), Control: control}
		frames := 0
		err := newwire.SplitN(pkt, n, func(fr newwire.Frame) error {
			stream = newwire.AppendFrame(stream, fr)
			frames++
			return nil
		})
		vrt.Assert(err == nil, "SplitN returns nil")
		if frames > 1 {
			if control {
				multiCtl = true
			} else {
				multiData = true
			}
		}
		out := pktOut{kind, 1, mid, append([]byte(nil), data...)}
		wantAll = append(wantAll, out)
		wantCtl = append(wantCtl, control)
		if !control {
			want = append(want, out)
		}
	}
	same := func(o, w pktOut) {
		vrt.Assert(o.kind == w.kind && o.sid == w.sid && o.mid == w.mid && len(o.data) == len(w.data), "same packet header and payload length")
		for j := range o.data {
			if j < len(w.data) {
				vrt.Assert(o.data[j] == w.data[j], "same packet payload")
			}
		}
	}
	or := oldwire.NewReader(&byteReader{data: stream})
	for i := 0; ; i++ {
		p, err := or.ReadPacket()
		if err != nil {
			vrt.Assert(err == io.EOF, "the old reader accepts what the current writer emits")
			vrt.Assert(i == len(want), "the old reader returns every packet without the control bit and nothing else")
			break
		}
		vrt.Assert(i < len(want), "the old reader returns no packet the writer did not send without the control bit")
		if i < len(want) {
			same(pktOut{uint8(p.Kind), p.ID.Stream, p.ID.Message, p.Data}, want[i])
		} else {
			break
		}
	}
	nr := newwire.NewReader(&byteReader{data: stream})
	for i := 0; ; i++ {
		p, err := nr.ReadPacket()
		if err != nil {
			vrt.Assert(err == io.EOF, "the current reader accepts what the current writer emits")
			vrt.Assert(i == len(wantAll), "the current reader returns every packet")
			break
		}
		vrt.Assert(i < len(wantAll), "the current reader returns no extra packet")
		if i < len(wantAll) {
			same(pktOut{uint8(p.Kind), p.ID.Stream, p.ID.Message, p.Data}, wantAll[i])
			vrt.Assert(p.Control == wantCtl[i], "control bit preserved by the current reader")
		} else {
			break
		}
	}
	if multiCtl {
		vrt.Cover("multi-frame-control")
	}
	if multiData {
		vrt.Cover("multi-frame-data")
	}
	vrt.Cover("split-emit-end")
}

// VerifH_OldSplitEmitNewReads: the converse direction - packets written by the released
// writer path (v0.0.17 SplitN with a symbolic split size, v0.0.17 AppendFrame) are decoded
// by the current reader to exactly those packets, payloads whole, none marked control.
func VerifH_OldSplitEmitNewReads() {
	npkts := vrt.Param("pkts", 2)
	maxdata := vrt.Param("maxdata", 3)
	var stream []byte
	var want []pktOut
	multi := false
	mid := uint64(0)
	for i := 0; i < npkts; i++ {
		mid++
		kind := vrt.U8("kind")
		vrt.Assume(kind >= 1 && kind <= 7)
		data := vrt.Bytes("d", maxdata)
		n := vrt.Int("n")
		vrt.Assume(n >= -1 && n <= 3 && n != 0)
		pkt := oldwire.Packet{Data: data, ID: oldwire.ID{Stream: 1, Message: mid}, Kind: oldwire.Kind(kind)}
		frames := 0
		err := oldwire.SplitN(context.Background(), pkt, n, func(_ context.Context, fr oldwire.Frame) error {
			stream = oldwire.AppendFrame(stream, fr)
			frames++
			return nil
		})
		vrt.Assert(err == nil, "old SplitN returns nil")
		if frames > 1 {
			multi = true
		}
		want = append(want, pktOut{kind, 1, mid, append([]byte(nil), data...)})
	}
	nr := newwire.NewReader(&byteReader{data: stream})
	for i := 0; ; i++ {
		p, err := nr.ReadPacket()
		if err != nil {
			vrt.Assert(err == io.EOF, "the current reader accepts what the old writer emits")
			vrt.Assert(i == len(want), "the current reader returns every packet the old writer sent")
			break
		}
		vrt.Assert(i < len(want), "the current reader returns no extra packet")
		if i >= len(want) {
			break
		}
		w := want[i]
		vrt.Assert(!p.Control, "old packets are not control packets")
		vrt.Assert(uint8(p.Kind) == w.kind && p.ID.Stream == w.sid && p.ID.Message == w.mid && len(p.Data) == len(w.data), "same packet header and payload length")
		for j := range p.Data {
			if j < len(w.data) {
				vrt.Assert(p.Data[j] == w.data[j], "same packet payload")
			}
		}
	}
	if multi {
		vrt.Cover("old-multi-frame")
	}
	vrt.Cover("old-split-emit-end")
}
