package drpcconn

import (
	"context"

	"storj.io/drpc/drpcerr"

	"storj.io/drpc/drpcmanager"
	"storj.io/drpc/drpcwire"
	vrt "storj.io/drpc/internal/verifrt"
	"storj.io/drpc/internal/verifrt/hx"
)

// VerifH_ClientNextRPC: client side with soft cancel. RPC 1 is soft-cancelled while the
// transport stalls the cancel packet; in that window RPC 2 is issued and (symbolically)
// either cancelled while it waits for RPC 1 to finish or left waiting; then the transport
// resumes. Afterwards a probe RPC must complete on the still-open connection.
func VerifH_ClientNextRPC() {
	tr := &hx.Transport{}
	gate := false
	conn := NewWithOptions(tr, Options{Manager: drpcmanager.Options{SoftCancel: true}})
	enc := hx.ByteEnc{}
	ctx1 := hx.NewCtx()
	cancel2 := vrt.Bool("cancelSecondWhileWaiting")
	stallCancel := vrt.Bool("stallCancelPacket")
	vrt.Tag("second-rpc-cancelled-while-waiting", cancel2)

	s1, err := conn.NewStream(ctx1, "rpc1", enc)
	vrt.Assert(err == nil && s1 != nil, "RPC 1 starts")
	if stallCancel {
		tr.Gate = &gate
	}
	ctx1.Cancel(context.Canceled)
	vrt.Quiesce() // watcher has released the semaphore; the cancel packet is parked (if stalled)

	ctx2 := hx.NewCtx()
	var err2 error
	done2 := false
	go func() {
		s2, e := conn.NewStream(ctx2, "rpc2", enc)
		err2 = e
		if e == nil {
			_ = s2.Close()
		}
		done2 = true
	}()
	vrt.Quiesce()
	if stallCancel {
		vrt.Assert(!done2, "RPC 2 waits for RPC 1 to finish")
		if cancel2 {
			ctx2.Cancel(context.Canceled)
			vrt.Quiesce()
			vrt.Assert(done2 && err2 == context.Canceled, "a waiting NewStream returns when its own context is cancelled")
		}
		gate = true
		vrt.Quiesce()
	}
	vrt.Assert(done2, "RPC 2 returns once RPC 1 has finished")
	vrt.Assert(!hx.IsClosedCh(conn.Closed()), "soft cancels with nothing else in flight leave the connection open")
	if !hx.IsClosedCh(conn.Closed()) {
		vrt.Assert(hx.IsClosedCh(conn.Unblocked()), "an open connection is unblocked")
		// probe: next stream id is 2 if RPC 2 never got a stream, else 3
		for sid := uint64(2); sid <= 3; sid++ {
			tr.Feed(hx.Pkt(drpcwire.KindMessage, sid, 1, false, []byte{0x42}))
			tr.Feed(hx.Pkt(drpcwire.KindCloseSend, sid, 2, false, nil))
		}
		in := []byte{1}
		var resp []byte
		var perr error
		pdone := false
		go func() { perr = conn.Invoke(hx.NewCtx(), "probe", enc, &in, &resp); pdone = true }()
		vrt.Quiesce()
		vrt.Assert(pdone, "the probe RPC on the healthy-looking connection completes")
		if pdone {
			vrt.Assert(perr == nil && len(resp) == 1 && resp[0] == 0x42, "the probe RPC gets its response")
		}
		vrt.Cover("client-probe-done")
	} else {
		vrt.Cover("client-closed")
	}
	conn.Close()
}

// VerifH_ClientNextRPCAfterRemoteEnd: client side. A write of RPC 1 is inside the transport
// (a MsgSend of a streaming call, or the request write of a unary call with a tiny writer
// buffer) when the server ends RPC 1 (error or close packet, handled by the reader
// meanwhile). The write then completes, the application closes its stream (or the unary
// call returns). The connection is open and healthy-looking, so a probe RPC must complete.
func VerifH_ClientNextRPCAfterRemoteEnd() {
	tr := &hx.Transport{}
	gate := false
	unary := vrt.Bool("unary")
	wsize := 0
	if unary || vrt.Bool("tinyWriterBuffer") {
		wsize = 1
	}
	conn := NewWithOptions(tr, Options{Manager: drpcmanager.Options{SoftCancel: vrt.Bool("soft"), WriterBufferSize: wsize}})
	enc := hx.ByteEnc{}
	endByClose := vrt.Bool("remoteCloses")
	remoteEnd := func() {
		if endByClose {
			tr.Feed(hx.Pkt(drpcwire.KindClose, 1, 1, false, nil))
		} else {
			tr.Feed(hx.Pkt(drpcwire.KindError, 1, 1, false, []byte{0, 0, 0, 0, 0, 0, 0, 9, 'n', 'o'}))
		}
	}
	d1 := false
	var err1 error
	if unary {
		tr.Gate = &gate
		go func() {
			in := []byte{1, 2, 3}
			var out []byte
			err1 = conn.Invoke(hx.NewCtx(), "rpc1", enc, &in, &out)
			d1 = true
		}()
	} else {
		st, err := conn.NewStream(hx.NewCtx(), "rpc1", enc)
		vrt.Assert(err == nil, "RPC 1 starts")
		tr.Gate = &gate
		go func() {
			m := []byte{1, 2, 3}
			err1 = st.MsgSend(&m, enc)
			_ = st.Close() // the application is done with the stream
			d1 = true
		}()
	}
	vrt.WaitFor(&tr.WParked)
	vrt.Quiesce()
	remoteEnd()
	vrt.Quiesce() // the reader has handled the server's final packet
	gate = true
	tr.Gate = nil
	vrt.Quiesce()
	vrt.Assert(d1, "RPC 1 returns")
	if unary {
		vrt.Assert(err1 != nil, "a unary call ended by the server's error or close fails")
		if err1 != nil && !endByClose {
			vrt.Assert(drpcerr.Code(err1) == 9 && err1.Error() == "no", "the call fails with exactly the server's message and code, also when the error arrives while the request is still being written")
		}
	}
	vrt.Assert(!hx.IsClosedCh(conn.Closed()), "the connection stays open")
	if hx.IsClosedCh(conn.Closed()) {
		return
	}
	tr.Feed(hx.Pkt(drpcwire.KindMessage, 2, 1, false, []byte{0x42}))
	tr.Feed(hx.Pkt(drpcwire.KindCloseSend, 2, 2, false, nil))
	in := []byte{9}
	var resp []byte
	var perr error
	pdone := false
	go func() { perr = conn.Invoke(hx.NewCtx(), "probe", enc, &in, &resp); pdone = true }()
	vrt.Quiesce()
	vrt.Assert(pdone, "the probe RPC on the healthy-looking connection completes")
	if pdone {
		vrt.Assert(perr == nil && len(resp) == 1 && resp[0] == 0x42, "the probe RPC gets its response")
	}
	vrt.Cover("client-remote-end-probe")
	conn.Close()
}

// VerifH_ProtocolErrorClosesConn: the peer sends a packet that violates the protocol for the
// active stream (an invoke on an existing stream, or an unknown non-control kind). The
// stream fails and - because the reader cannot go on - the connection is closed (reported
// closed, transport closed once, later calls fail at once, nothing left behind): it is
// never left open without a reader.
func VerifH_ProtocolErrorClosesConn() {
	tr := &hx.Transport{}
	conn := NewWithOptions(tr, Options{Manager: drpcmanager.Options{SoftCancel: vrt.Bool("soft")}})
	enc := hx.ByteEnc{}
	st, err := conn.NewStream(hx.NewCtx(), "rpc", enc)
	vrt.Assert(err == nil, "the call starts")
	var rerr error
	rdone := false
	go func() { var out []byte; rerr = st.MsgRecv(&out, enc); rdone = true }()
	vrt.Quiesce()
	if vrt.Bool("invokeOnExisting") {
		tr.Feed(hx.Pkt(drpcwire.KindInvoke, 1, 1, false, []byte("x")))
	} else {
		k := vrt.U8("kind")
		vrt.Assume(k == 0 || (k >= 8 && k < 64))
		tr.Feed(hx.Pkt(drpcwire.Kind(k), 1, 1, false, nil))
	}
	vrt.Quiesce()
	vrt.Assert(rdone && rerr != nil, "the pending receive fails")
	vrt.Assert(hx.IsClosedCh(conn.Closed()), "a protocol violation by the peer closes the connection")
	vrt.Assert(tr.Closes == 1, "the transport is closed exactly once")
	in := []byte{1}
	var out []byte
	vrt.Assert(conn.Invoke(hx.NewCtx(), "next", enc, &in, &out) != nil, "later calls fail instead of hanging")
	vrt.Assert(vrt.Unfinished() == 0, "no goroutine is left behind")
	vrt.Cover("protocol-error-closes-end")
}
