package drpcerr

import (
	vrt "storj.io/drpc/internal/verifrt"
)

type plainErr struct{}

func (plainErr) Error() string { return "plain" }

type codedErr struct{ c uint64 }

func (e *codedErr) Error() string { return "coded" }
func (e *codedErr) Code() uint64  { return e.c }

type causeErr struct{ inner error }

func (e *causeErr) Error() string { return "cause" }
func (e *causeErr) Cause() error  { return e.inner }

type unwrapErr struct{ inner error }

func (e *unwrapErr) Error() string { return "unwrap" }
func (e *unwrapErr) Unwrap() error { return e.inner }

type selfErr struct{}

func (e *selfErr) Error() string { return "self" }
func (e *selfErr) Unwrap() error { return e }

// buildChain builds an error chain of the given depth from symbolic layer choices and
// returns it together with the code the documentation promises: the first Code() found
// walking Cause/Unwrap outward-in, 0 if the chain ends (nil / plain / trivial cycle) first.
func buildChain(depth int) (error, uint64) {
	var err error
	var want uint64
	// build inside-out: layer depth-1 is innermost
	kinds := make([]int, depth)
	codes := make([]uint64, depth)
	for i := 0; i < depth; i++ {
		kinds[i] = vrt.Int("layer")
		vrt.Assume(kinds[i] >= 0 && kinds[i] <= 5)
		codes[i] = vrt.U64("code")
	}
	for i := depth - 1; i >= 0; i-- {
		switch kinds[i] {
		case 0:
			err, want = plainErr{}, 0
		case 1:
			err, want = &codedErr{codes[i]}, codes[i]
		case 2:
			err = &causeErr{err} // want unchanged; nil inner => 0
			if err.(*causeErr).inner == nil {
				want = 0
			}
		case 3:
			err = &unwrapErr{err}
			if err.(*unwrapErr).inner == nil {
				want = 0
			}
		case 4:
			err, want = &selfErr{}, 0
		case 5:
			inner := err
			err = WithCode(inner, codes[i])
			if inner == nil {
				want = 0
			} else if codes[i] != 0 {
				want = codes[i]
			}
		}
	}
	return err, want
}

// VerifH_CodeChain: Code(err) terminates without panic and returns the first code along the chain.
func VerifH_CodeChain() {
	err, want := buildChain(vrt.Param("depth", 3))
	got := Code(err)
	vrt.Assert(got == want, "Code returns the first code found along Cause/Unwrap")
	vrt.Cover("codechain-end")
	if want != 0 {
		vrt.Cover("codechain-coded")
	}
}

type valSelf struct{ n int }

func (e valSelf) Error() string { return "valself" }
func (e valSelf) Unwrap() error { return e }

// VerifH_CodeCycles: error chains that cycle (two and three pointer errors referring to
// each other through Unwrap/Cause, a value type returning itself): Code terminates within
// a bounded number of steps and yields 0.
func VerifH_CodeCycles() {
	var err error
	switch vrt.Choice("shape", 3) {
	case 0:
		a := &unwrapErr{}
		b := &causeErr{inner: a}
		a.inner = b
		err = a
	case 1:
		err = valSelf{n: 7}
	case 2:
		c := &unwrapErr{}
		c.inner = &unwrapErr{&causeErr{c}}
		err = c
	}
	vrt.Bounded("Code terminates on cyclic error chains", 100000)
	got := Code(err)
	vrt.BoundedEnd()
	vrt.Assert(got == 0, "a cycle without a code yields 0")
	vrt.Cover("code-cycles-end")
}
