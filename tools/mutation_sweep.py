#!/usr/bin/env python3
"""Systematic mutation sweep (our own complement to the agents' seeded changes).

usage: tools/mutation_sweep.py <out.json> <file> [<file> ...]   (files relative to the repo root)

Phase 1: every mutant of every file (tools/mutate operators) is built and run against the
repository's own tests (root module twice + internal/integration) in scratch worktrees;
mutants that fail to build or that the existing tests kill are dropped.
Phase 2: for each surviving mutant the quick tier of the checks that cover the file's
package is run against the mutated tree (evidence to scratch files), stopping at the first
check that reports a violation.  Result: which check catches which surviving mutant, and the
list of undetected survivors (equivalent mutants or gaps) for manual triage.
"""
import json, os, subprocess, sys, concurrent.futures as cf, tempfile, shutil, re

ENV = dict(os.environ, GOFLAGS='-mod=mod', GOPROXY='off', GOSUMDB='off', GOTOOLCHAIN='local')
CHECKS = {
 'drpcwire': ['C08','C09','C18','C07','C13','C05','C01'],
 'drpcstream': ['C03','C07','C04','C10','C01','C06','C02','C05','C12'],
 'drpcmanager': ['C12','C02','C06','C04','C05','C11','C13','C01'],
 'drpcconn': ['C02','C04','C05','C06','C11','C12','C01'],
 'drpcserver': ['C06','C12','C05','C10','C01'],
 'drpcpool': ['C15'], 'drpcmigrate': ['C16'], 'drpcsignal': ['C19','C03','C12'],
 'drpcmetadata': ['C11','C13'], 'drpcerr': ['C10','C13'], 'drpcctx': ['C12'],
 'drpcmux': ['C10'], 'drpchttp': ['C14','C13'], 'drpcenc': ['C02','C01'],
}

def sh(cmd, cwd=None, env=ENV, timeout=900):
    try:
        p = subprocess.run(cmd, shell=True, cwd=cwd, env=env, capture_output=True, text=True, timeout=timeout)
        return p.returncode, p.stdout + p.stderr
    except subprocess.TimeoutExpired:
        return 124, 'timeout'

def worktree(name):
    d = f'/tmp/mut_wt_{name}'
    sh(f'git -C /repo worktree remove --force {d}')
    rc, out = sh(f'git -C /repo worktree add --detach -f {d} HEAD')
    assert rc == 0, out
    return d

def survive(args):
    wt, f, i, line, desc, fn = args
    sh('git checkout -q -- .', cwd=wt)
    rc, out = sh(f'/verif/bin/mutate -file {wt}/{f} -n {i} -o {wt}/{f}')
    if rc != 0: return (f, i, line, desc, fn, 'mutate-failed')
    rc, out = sh('go build ./... && go vet ./' + os.path.dirname(f) + '/', cwd=wt, timeout=300)
    if rc != 0: return (f, i, line, desc, fn, 'no-build')
    for rep in range(2):
        rc, out = sh('go test -vet=off -count=1 -timeout 120s ./...', cwd=wt, timeout=400)
        if rc != 0: return (f, i, line, desc, fn, 'killed-by-tests')
    env = dict(ENV); env.pop('GOTOOLCHAIN'); env.pop('GOSUMDB')
    rc, out = sh('go test -vet=off -count=1 -timeout 240s ./...', cwd=wt + '/internal/integration', env=env, timeout=600)
    if rc != 0: return (f, i, line, desc, fn, 'killed-by-tests')
    return (f, i, line, desc, fn, 'survived')

HF = None
def harnesses_for(f, fn):
    """quick-tier harnesses that execute the mutated function, cheapest first"""
    global HF
    if HF is None: HF = json.load(open(os.environ.get('HARNESS_FUNCS', '/tmp/harness_funcs.json')))
    pkgpath = 'storj.io/drpc/' + os.path.dirname(f)
    if ')' in fn:   # method: "Type).Name"
        pats = [pkgpath + '.' + fn, pkgpath + '.' + fn.replace(').', '[').split('[')[0]]  # generic receivers print differently
        hit = lambda fs: any((pkgpath + '.' + fn) in x or (pkgpath + '.' + fn.split(')')[0] + '[') in x and x.endswith('.' + fn.split(').')[1]) for x in fs)
    else:
        hit = lambda fs: any(x == pkgpath + '.' + fn or x.startswith(pkgpath + '.' + fn + '$') or x.startswith(pkgpath + '.' + fn + '[') for x in fs)
    return sorted([h for h in HF if hit(h['funcs'])], key=lambda h: h['wall'])[:int(os.environ.get('SWEEP_MAXH', '1000'))]

def detect(args):
    wt, f, i, line, desc, fn = args
    sh('git checkout -q -- .', cwd=wt)
    sh(f'/verif/bin/mutate -file {wt}/{f} -n {i} -o {wt}/{f}')
    hs = harnesses_for(f, fn)
    if not hs:
        return (f, i, line, desc, fn, 'no-harness-executes-it', '', [])
    incon = []
    for h in hs:
        cmd = f"/verif/bin/gosmt run -pkg {h['pkg']} -fn '^{h['fn']}$' -K {h['K']} -w 6 -timeout 300"
        if h['params']: cmd += ' -params ' + ','.join(f'{k}={v}' for k, v in h['params'].items())
        if h['fine']: cmd += ' -fine'
        env = dict(os.environ, VERIF_REPO=wt)
        rc, out = sh(cmd, cwd='/verif/gosmt', env=env, timeout=900)
        head = [l for l in out.split('\n') if l.startswith('VerifH')]
        if head and ' VIOLATED ' in head[0]:
            # known findings of the unchanged tree do not count: require a label that the clean tree does not produce
            labs = sorted(set(re.findall(r'^    (?:assert|panic|race|deadlock): (.*?) @', out, re.M)))
            base = set(h.get('clean_labels', []))
            new = [l for l in labs if l not in base]
            if new:
                return (f, i, line, desc, fn, 'caught', h['fn'], new[:2])
        elif head and ' INCONCLUSIVE ' in head[0]:
            incon.append(h['fn'])
    return (f, i, line, desc, fn, 'inconclusive' if incon else 'undetected', ','.join(incon), [h['fn'] for h in hs][:6])

def main():
    out, files = sys.argv[1], sys.argv[2:]
    jobs = []
    for f in files:
        rc, o = sh(f'/verif/bin/mutate -file /repo/{f} -list')
        for l in o.strip().split('\n'):
            if not l: continue
            i, line, desc, fn = l.split('\t')
            if os.environ.get('SWEEP_SKIP_SWAP') and desc.startswith('swap with next'): continue
            if os.environ.get('SWEEP_FUNCS') and not re.search(os.environ['SWEEP_FUNCS'], fn): continue
            jobs.append((f, int(i), int(line), desc, fn))
    n1 = int(os.environ.get('SWEEP_JOBS1', '6')); n2 = int(os.environ.get('SWEEP_JOBS2', '3'))
    wts = [worktree(f'a{k}') for k in range(n1)]
    res1 = []
    # round-robin the worktrees: each worker owns one
    def worker(k):
        r = []
        for idx in range(k, len(jobs), n1):
            r.append(survive((wts[k],) + jobs[idx]))
        return r
    with cf.ThreadPoolExecutor(n1) as ex:
        for r in ex.map(worker, range(n1)): res1 += r
    surv = [r for r in res1 if r[5] == 'survived']
    print(f'{len(jobs)} mutants: {sum(r[5]=="no-build" for r in res1)} do not build, {sum(r[5]=="killed-by-tests" for r in res1)} killed by the existing tests, {len(surv)} survive', flush=True)
    json.dump({'phase1': res1}, open(out + '.phase1', 'w'))
    res2 = []
    def worker2(k):
        r = []
        for idx in range(k, len(surv), n2):
            x = detect((wts[k],) + surv[idx][:5])
            print('  ', x, flush=True)
            r.append(x)
        return r
    with cf.ThreadPoolExecutor(n2) as ex:
        for r in ex.map(worker2, range(n2)): res2 += r
    for w in wts: sh(f'git -C /repo worktree remove --force {w}')
    json.dump({'phase1': res1, 'phase2': res2}, open(out, 'w'), indent=1)
    json.dump({'phase1': res1}, open(out + '.phase1', 'w'))
    und = [r for r in res2 if r[5] != 'caught']
    print(f'survivors: {len(surv)}, caught by the checks: {len(res2)-len(und)}, not caught: {len(und)}')
    for r in und: print('   NOT CAUGHT', r)

main()
