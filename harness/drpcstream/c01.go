package drpcstream

import (
	"context"
	"io"

	"storj.io/drpc"

	"storj.io/drpc/drpcwire"
	vrt "storj.io/drpc/internal/verifrt"
)

// VerifH_SendPath: k messages of symbolic length are sent with symbolic split size, writer
// buffer size and flush mode, then CloseSend. When MsgSend returns nil with automatic
// flushing the transport already holds every frame of that message; with manual flushing
// the same holds after RawFlush. The log decodes to exactly the messages, in order.
func VerifH_SendPath() { sendPath(false) }

// VerifH_SendPathWideSizes: the same with every writer buffer size in [1,10] (and 64), so
// that each combination of "a frame is buffered" and "the next frame does / does not fit
// next to it / alone" occurs.
func VerifH_SendPathWideSizes() { sendPath(true) }

func sendPath(wide bool) {
	sid := uint64(3)
	tr := &recTransport{}
	wsize := vrt.Int("wsize")
	if wide {
		vrt.Assume((wsize >= 1 && wsize <= 10) || wsize == 64)
	} else {
		vrt.Assume(wsize == 1 || wsize == 8 || wsize == 64)
	}
	split := vrt.Int("split")
	vrt.Assume(split >= -1 && split <= 3)
	manual := vrt.Bool("manual")
	wr := drpcwire.NewWriter(tr, wsize)
	s := NewWithOptions(context.Background(), sid, wr, Options{SplitSize: split, ManualFlush: manual})
	tr.afterTerm = s
	r := &refStream{}
	n := vrt.Param("msgs", 2)
	maxlen := vrt.Param("maxlen", 4)
	for i := 0; i < n; i++ {
		msg := vrt.Bytes("m", maxlen)
		err := s.MsgSend(&msg, byteEnc{})
		vrt.Assert(err == nil, "MsgSend succeeds on an open stream")
		r.emit(drpcwire.KindMessage, false, msg)
		if manual {
			vrt.Assert(s.RawFlush() == nil, "RawFlush succeeds")
		}
		// everything submitted so far is already on the transport, nothing else is needed
		checkLog(tr.log, sid, r.out)
	}
	vrt.Assert(s.CloseSend() == nil, "CloseSend succeeds")
	r.emit(drpcwire.KindCloseSend, false, nil)
	checkLog(tr.log, sid, r.out)
	vrt.Assert(!tr.reenter, "transport never sees two writes in flight")
	vrt.Cover("sendpath-end")
}

// VerifH_RecvRendezvous: the producer does what the manager's reader does (one reused
// buffer: fill, HandlePacket, refill, HandlePacket, then CloseSend or Close); the consumer receives
// three times. The consumer must obtain m1, m2, then end-of-stream, with the bytes of the
// time of the hand-over (the lent buffer is not reused while held).
func VerifH_RecvRendezvous() {
	sid := uint64(1)
	tr := &recTransport{}
	s := NewWithOptions(context.Background(), sid, drpcwire.NewWriter(tr, 64), Options{})
	m1 := vrt.BytesN("m1", 2)
	m2 := vrt.BytesN("m2", 2)
	raw := vrt.Bool("rawRecv")
	endClose := vrt.Bool("endWithClose")
	var g1, g2 []byte
	var e1, e2, e3 error
	cdone, pdone := false, false
	go func() { // producer = manageReader's use of its packet buffer
		buf := make([]byte, 2)
		copy(buf, m1)
		_ = s.HandlePacket(drpcwire.Packet{ID: drpcwire.ID{Stream: sid, Message: 1}, Kind: drpcwire.KindMessage, Data: buf})
		copy(buf, m2)
		_ = s.HandlePacket(drpcwire.Packet{ID: drpcwire.ID{Stream: sid, Message: 2}, Kind: drpcwire.KindMessage, Data: buf})
		buf[0], buf[1] = 0xAA, 0xBB
		endKind := drpcwire.KindCloseSend
		if endClose { // the remote closes the stream outright: a receiver blocked at that moment still sees end-of-stream
			endKind = drpcwire.KindClose
		}
		_ = s.HandlePacket(drpcwire.Packet{ID: drpcwire.ID{Stream: sid, Message: 3}, Kind: endKind})
		pdone = true
	}()
	go func() {
		if raw {
			g1, e1 = s.RawRecv()
			g2, e2 = s.RawRecv()
			_, e3 = s.RawRecv()
		} else {
			e1 = s.MsgRecv(&g1, byteEnc{})
			e2 = s.MsgRecv(&g2, byteEnc{})
			var g3 []byte
			e3 = s.MsgRecv(&g3, byteEnc{})
		}
		cdone = true
	}()
	vrt.Quiesce()
	vrt.Assert(pdone && cdone, "producer and consumer complete")
	vrt.Assert(e1 == nil && e2 == nil, "both messages are received")
	vrt.Assert(len(g1) == 2 && g1[0] == m1[0] && g1[1] == m1[1], "first message intact")
	vrt.Assert(len(g2) == 2 && g2[0] == m2[0] && g2[1] == m2[1], "second message intact, not the refilled buffer")
	vrt.Assert(e3 == io.EOF, "end-of-stream only after all messages")
	vrt.Cover("rendezvous-end")
}

// VerifH_TwoReceivers: two goroutines blocked in MsgRecv, one message then half-close:
// exactly one receiver gets the message, the other end-of-stream (exactly-once delivery).
func VerifH_TwoReceivers() {
	sid := uint64(1)
	tr := &recTransport{}
	s := NewWithOptions(context.Background(), sid, drpcwire.NewWriter(tr, 64), Options{})
	m1 := vrt.BytesN("m1", 1)
	var g1, g2 []byte
	var e1, e2 error
	d1, d2, pdone := false, false, false
	go func() { e1 = s.MsgRecv(&g1, byteEnc{}); d1 = true }()
	go func() { e2 = s.MsgRecv(&g2, byteEnc{}); d2 = true }()
	go func() {
		_ = s.HandlePacket(drpcwire.Packet{ID: drpcwire.ID{Stream: sid, Message: 1}, Kind: drpcwire.KindMessage, Data: m1})
		_ = s.HandlePacket(drpcwire.Packet{ID: drpcwire.ID{Stream: sid, Message: 2}, Kind: drpcwire.KindCloseSend})
		pdone = true
	}()
	vrt.Quiesce()
	vrt.Assert(d1 && d2 && pdone, "everyone completes")
	got := 0
	eofs := 0
	if e1 == nil {
		got++
		vrt.Assert(len(g1) == 1 && g1[0] == m1[0], "receiver 1 got the message intact")
	} else if e1 == io.EOF {
		eofs++
	}
	if e2 == nil {
		got++
		vrt.Assert(len(g2) == 1 && g2[0] == m1[0], "receiver 2 got the message intact")
	} else if e2 == io.EOF {
		eofs++
	}
	vrt.Assert(got == 1 && eofs == 1, "the message is delivered exactly once, the other receiver sees end-of-stream")
	vrt.Cover("tworecv-end")
}

// VerifH_ConcurrentSenders: one send is parked in the transport, two more senders queue
// behind it; after release the transport log decodes to the three messages, the parked one
// first, each intact (no sender transmits another's bytes).
func VerifH_ConcurrentSenders() {
	sid := uint64(1)
	gate := true
	tr := &recTransport{gate: &gate}
	s := NewWithOptions(context.Background(), sid, drpcwire.NewWriter(tr, 1), Options{})
	warm := []byte{0, 0, 0}
	vrt.Assert(s.MsgSend(&warm, byteEnc{}) == nil, "warm-up send")
	gate = false
	a := vrt.BytesN("a", 2)
	b := vrt.BytesN("b", 2)
	c := vrt.BytesN("c", 2)
	vrt.Assume(a[0] == 0xA0 && b[0] == 0xB0 && c[0] == 0xC0) // tag the senders
	var ea, eb, ec error
	da, db, dc := false, false, false
	go func() { ea = s.MsgSend(&a, byteEnc{}); da = true }()
	go func() { vrt.WaitFor(&tr.parked); eb = s.MsgSend(&b, byteEnc{}); db = true }()
	go func() { vrt.WaitFor(&tr.parked); ec = s.MsgSend(&c, byteEnc{}); dc = true }()
	vrt.Quiesce()
	vrt.Assert(!da && !db && !dc, "one sender parked, two queued")
	gate = true
	vrt.Quiesce()
	vrt.Assert(da && db && dc && ea == nil && eb == nil && ec == nil, "all sends succeed")
	vrt.Assert(!tr.reenter, "transport never sees two writes in flight")
	// decode: warm, a, then {b,c} in some order
	rem := tr.log
	var msgs [][]byte
	for len(rem) > 0 {
		var fr drpcwire.Frame
		var ok bool
		var err error
		rem, fr, ok, err = drpcwire.ParseFrame(rem)
		vrt.Assert(ok && err == nil && fr.Done && fr.Kind == drpcwire.KindMessage, "log is whole single-frame message packets")
		if !ok || err != nil {
			return
		}
		msgs = append(msgs, fr.Data)
	}
	vrt.Assert(len(msgs) == 4, "four messages on the wire")
	if len(msgs) == 4 {
		vrt.Assert(len(msgs[1]) == 2 && msgs[1][0] == 0xA0 && msgs[1][1] == a[1], "the parked sender's message is first and intact")
		x, y := msgs[2], msgs[3]
		okBC := len(x) == 2 && len(y) == 2 && x[0] == 0xB0 && x[1] == b[1] && y[0] == 0xC0 && y[1] == c[1]
		okCB := len(x) == 2 && len(y) == 2 && x[0] == 0xC0 && x[1] == c[1] && y[0] == 0xB0 && y[1] == b[1]
		vrt.Assert(okBC || okCB, "each queued sender's message appears exactly once and intact")
	}
	vrt.Cover("senders-end")
}

// VerifH_ParkedWriteTwoEvents: a send is parked in the transport, a second writer
// (Close / CloseSend / SendError / MsgSend) queues behind it, and while it waits a
// terminating event (remote Error / Close / Cancel packet or local Cancel) is processed;
// then the transport is released. Nothing is written after the stream reports finished,
// the transport is never re-entered, the log is a well-formed frame sequence.
func VerifH_ParkedWriteTwoEvents() {
	sid := uint64(1)
	gate := false
	tr := &recTransport{gate: &gate}
	s := NewWithOptions(context.Background(), sid, drpcwire.NewWriter(tr, 1), Options{SplitSize: 1})
	tr.afterTerm = s
	bop := vrt.Int("queued")
	vrt.Assume(bop >= 0 && bop <= 3)
	ev := vrt.Int("event")
	vrt.Assume(ev >= 0 && ev <= 3)
	msg := []byte{1, 2}
	da, db := false, false
	go func() { _ = s.MsgSend(&msg, byteEnc{}); da = true }()
	go func() {
		vrt.WaitFor(&tr.parked)
		switch bop {
		case 0:
			_ = s.Close()
		case 1:
			_ = s.CloseSend()
		case 2:
			_ = s.SendError(&appErr{msg: "e", code: 5})
		case 3:
			m2 := []byte{9}
			_ = s.MsgSend(&m2, byteEnc{})
		}
		db = true
	}()
	vrt.Quiesce()
	vrt.Assert(!da && !db, "sender parked, second writer queued")
	// the terminating event needs the stream mutex; Close/CloseSend/SendError hold it while
	// they wait for the write lock, so deliver it from its own thread
	dc := false
	go func() {
		switch ev {
		case 0:
			_ = s.HandlePacket(drpcwire.Packet{ID: drpcwire.ID{Stream: sid, Message: 1}, Kind: drpcwire.KindError, Data: []byte{0, 0, 0, 0, 0, 0, 0, 7, 'x'}})
		case 1:
			_ = s.HandlePacket(drpcwire.Packet{ID: drpcwire.ID{Stream: sid, Message: 1}, Kind: drpcwire.KindClose})
		case 2:
			_ = s.HandlePacket(drpcwire.Packet{ID: drpcwire.ID{Stream: sid, Message: 1}, Kind: drpcwire.KindCancel, Control: true})
		case 3:
			s.Cancel(context.Canceled)
		}
		dc = true
	}()
	vrt.Quiesce()
	gate = true
	vrt.Quiesce()
	vrt.Assert(da && db && dc, "everything returns once the transport lets go")
	vrt.Assert(!tr.reenter, "transport never sees two writes in flight")
	vrt.Assert(!tr.lateWrite, "no write starts after the stream reported finished")
	// grammar of the log
	rem := tr.log
	var last drpcwire.ID
	lastDone := true
	var lastKind drpcwire.Kind
	for len(rem) > 0 {
		var fr drpcwire.Frame
		var ok bool
		var err error
		rem, fr, ok, err = drpcwire.ParseFrame(rem)
		vrt.Assert(ok && err == nil, "log is a sequence of whole frames")
		if !ok || err != nil {
			return
		}
		if fr.ID == last {
			vrt.Assert(!lastDone && fr.Kind == lastKind, "no frame after the final frame of an id, one kind per id")
		} else {
			vrt.Assert(last.Less(fr.ID), "ids never go backwards")
		}
		last, lastDone, lastKind = fr.ID, fr.Done, fr.Kind
	}
	vrt.Cover("twoevents-end")
}

type failEnc struct{}

var errDecode error = &appErr{msg: "undecodable", code: 42}

func (failEnc) Marshal(msg drpc.Message) ([]byte, error)     { return nil, errDecode }
func (failEnc) Unmarshal(buf []byte, msg drpc.Message) error { return errDecode }

// VerifH_RecvUndecodable: a received message fails to decode (the dispatcher's
// "undecodable request" path): MsgRecv returns the decoder's error, the packet buffer is
// released, and a following SendError / Close completes (the reader is not left parked
// and the terminating call does not hang).
func VerifH_RecvUndecodable() {
	sid := uint64(1)
	tr := &recTransport{}
	s := NewWithOptions(context.Background(), sid, drpcwire.NewWriter(tr, 64), Options{})
	useClose := vrt.Bool("thenClose")
	var rerr, terr error
	pdone, cdone := false, false
	go func() {
		_ = s.HandlePacket(drpcwire.Packet{ID: drpcwire.ID{Stream: sid, Message: 1}, Kind: drpcwire.KindMessage, Data: []byte{1, 2}})
		pdone = true
	}()
	go func() {
		var out []byte
		rerr = s.MsgRecv(&out, failEnc{})
		if useClose {
			terr = s.Close()
		} else {
			terr = s.SendError(rerr)
		}
		cdone = true
	}()
	vrt.Quiesce()
	vrt.Assert(cdone, "receive of an undecodable message and the following SendError/Close return")
	vrt.Assert(pdone, "the reader handing over the message is released")
	vrt.Assert(rerr == errDecode, "MsgRecv reports the decoder's error")
	vrt.Assert(terr == nil, "the terminating call succeeds")
	vrt.Assert(s.IsFinished(), "the stream finishes")
	if !useClose {
		// the error packet carries the dispatcher's message and code
		pk := []refFrameOut{{kind: drpcwire.KindError, data: append([]byte{0, 0, 0, 0, 0, 0, 0, 42}, "undecodable"...)}}
		checkLog(tr.log, sid, pk)
	}
	vrt.Cover("undecodable-end")
}

// slowEnc's Unmarshal parks (message held) until released.
type slowEnc struct {
	entered *bool
	release *bool
}

func (e slowEnc) Marshal(msg drpc.Message) ([]byte, error) { return *(msg.(*[]byte)), nil }
func (e slowEnc) Unmarshal(buf []byte, msg drpc.Message) error {
	*e.entered = true
	vrt.WaitFor(e.release)
	*(msg.(*[]byte)) = append([]byte(nil), buf...)
	return nil
}

// VerifH_TerminateWhileHeld: a message is being decoded by the application (held) with the
// reader parked in Put behind it; the stream is terminated concurrently (Cancel / Close /
// remote Error), which must wait for the held message; then the application finishes
// decoding. Everybody must be released: the in-flight receive returns the intact message,
// the terminating call returns, the reader returns, later receives fail.
func VerifH_TerminateWhileHeld() {
	sid := uint64(1)
	tr := &recTransport{}
	s := NewWithOptions(context.Background(), sid, drpcwire.NewWriter(tr, 64), Options{})
	entered, release := false, false
	enc := slowEnc{&entered, &release}
	how := vrt.Choice("how", 3)
	var got []byte
	var rerr error
	rdone, pdone, tdone := false, false, false
	go func() { rerr = s.MsgRecv(&got, enc); rdone = true }()
	go func() {
		buf := []byte{5, 6}
		_ = s.HandlePacket(drpcwire.Packet{ID: drpcwire.ID{Stream: sid, Message: 1}, Kind: drpcwire.KindMessage, Data: buf})
		// the manager's reader reuses its packet buffer as soon as HandlePacket returns
		buf[0], buf[1] = 0xEE, 0xEF
		pdone = true
	}()
	vrt.WaitFor(&entered)
	vrt.Quiesce()
	go func() {
		switch how {
		case 0:
			s.Cancel(context.Canceled)
		case 1:
			_ = s.Close()
		case 2:
			_ = s.HandlePacket(drpcwire.Packet{ID: drpcwire.ID{Stream: sid, Message: 2}, Kind: drpcwire.KindError, Data: []byte{0, 0, 0, 0, 0, 0, 0, 1, 'x'}})
		}
		tdone = true
	}()
	vrt.Quiesce()
	vrt.Assert(!rdone, "the receive is still decoding")
	release = true
	vrt.Quiesce()
	vrt.Assert(rdone && rerr == nil && len(got) == 2 && got[0] == 5 && got[1] == 6, "the in-flight receive returns the intact message")
	vrt.Assert(tdone, "the terminating call returns once the held message is released")
	vrt.Assert(pdone, "the reader is released")
	var again []byte
	d2 := false
	var e2 error
	go func() { e2 = s.MsgRecv(&again, byteEnc{}); d2 = true }()
	vrt.Quiesce()
	vrt.Assert(d2 && e2 != nil, "later receives fail instead of hanging")
	vrt.Assert(s.IsFinished(), "the stream finishes")
	vrt.Cover("held-end")
}
