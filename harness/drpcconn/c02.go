package drpcconn

import (
	"context"

	"storj.io/drpc"

	"storj.io/drpc/drpcmanager"
	"storj.io/drpc/drpcwire"
	vrt "storj.io/drpc/internal/verifrt"
	"storj.io/drpc/internal/verifrt/hx"
)

const (
	e1Close       = iota // client closes RPC 1
	e1SoftCancel         // client soft-cancels RPC 1
	e1RemoteError        // server fails RPC 1
	e1Normal             // server half-closes, client closes
	numE1
)

// latePacket builds one leftover packet of stream 1 with a symbolic kind.
func latePacket(mid uint64) []byte {
	k := vrt.U8("lateKind")
	vrt.Assume(k >= 2 && k <= 8 && k != 7) // message, error, cancel, close, closesend, unknown(8, control)
	data := []byte{0xEE}
	if drpcwire.Kind(k) == drpcwire.KindError {
		data = []byte{0, 0, 0, 0, 0, 0, 0, 9, 'l', 'a', 't', 'e'}
	}
	return hx.Pkt(drpcwire.Kind(k), 1, mid, k == 8 || k == 4, data)
}

// VerifH_LatePackets: RPC 1 (streaming) ends in one of four ways; up to two leftover
// packets of stream 1 (any kind) reach the client before or after RPC 2 has begun; RPC 2
// (unary) must return exactly its own response and never RPC 1's data or outcome.
func VerifH_LatePackets() {
	tr := &hx.Transport{}
	soft := vrt.Bool("soft")
	conn := NewWithOptions(tr, Options{Manager: drpcmanager.Options{SoftCancel: soft}})
	enc := hx.ByteEnc{}
	end1 := vrt.Int("end1")
	vrt.Assume(end1 >= 0 && end1 < numE1)
	vrt.Assume(end1 != e1SoftCancel || soft)
	nlate := vrt.Int("nlate")
	vrt.Assume(nlate >= 0 && nlate <= vrt.Param("maxlate", 2))
	lateBefore := vrt.Bool("lateArrivesBeforeRPC2")

	ctx1 := hx.NewCtx()
	s1, err := conn.NewStream(ctx1, "rpc1", enc)
	vrt.Assert(err == nil, "RPC 1 starts")
	m := []byte{1}
	vrt.Assert(s1.MsgSend(&m, enc) == nil, "RPC 1 sends")
	mid := uint64(1)
	switch end1 {
	case e1Close:
		vrt.Assert(s1.Close() == nil, "RPC 1 closes")
	case e1SoftCancel:
		ctx1.Cancel(context.Canceled)
	case e1RemoteError:
		tr.Feed(hx.Pkt(drpcwire.KindError, 1, mid, false, []byte{0, 0, 0, 0, 0, 0, 0, 5, 'x'}))
		mid++
		var got []byte
		vrt.Assert(s1.MsgRecv(&got, enc) != nil, "RPC 1 observes the server's error")
	case e1Normal:
		tr.Feed(hx.Pkt(drpcwire.KindMessage, 1, mid, false, []byte{0x31}))
		mid++
		tr.Feed(hx.Pkt(drpcwire.KindCloseSend, 1, mid, false, nil))
		mid++
		var got []byte
		vrt.Assert(s1.MsgRecv(&got, enc) == nil && len(got) == 1 && got[0] == 0x31, "RPC 1 receives its own response")
		vrt.Assert(s1.Close() == nil, "RPC 1 closes")
	}
	vrt.Quiesce()
	vrt.Assert(!hx.IsClosedCh(conn.Closed()), "however RPC 1 ended (nothing was in flight), the connection stays open for reuse")
	if hx.IsClosedCh(conn.Closed()) {
		return
	}
	feedLate := func() {
		for i := 0; i < nlate; i++ {
			tr.Feed(latePacket(mid))
			mid++
		}
	}
	if lateBefore {
		feedLate()
		vrt.Quiesce()
	}
	var out []byte
	var err2 error
	d2 := false
	go func() {
		in := []byte{2}
		err2 = conn.Invoke(hx.NewCtx(), "rpc2", enc, &in, &out)
		d2 = true
	}()
	vrt.Quiesce()
	if !lateBefore {
		feedLate()
	}
	tr.Feed(hx.Pkt(drpcwire.KindMessage, 2, 1, false, []byte{0x42}))
	tr.Feed(hx.Pkt(drpcwire.KindCloseSend, 2, 2, false, nil))
	vrt.Quiesce()
	vrt.Assert(d2, "RPC 2 completes")
	if d2 {
		vrt.Assert(err2 == nil, "RPC 2 is not failed by anything sent on RPC 1")
		vrt.Assert(len(out) == 1 && out[0] == 0x42, "RPC 2 returns the response to its own request")
	}
	// what the client wrote for RPC 2 carries stream id 2 only after all stream-1 frames
	pkts, ok := hx.ParseOut(tr.Out)
	vrt.Assert(ok, "client output is well-formed")
	seen2 := false
	for _, p := range pkts {
		if p.Sid == 2 {
			seen2 = true
		}
		if seen2 {
			vrt.Assert(p.Sid == 2, "no frame of the earlier stream follows a frame of the later one")
		}
	}
	vrt.Cover("late-end")
	conn.Close()
}

// VerifH_CancelAfterOverlap: RPC 1 finishes by itself at the same moment its context is
// cancelled (both events pending when the watcher looks); RPC 2 is then blocked in a
// receive and its own context is cancelled: the cancel must still be delivered to RPC 2.
func VerifH_CancelAfterOverlap() {
	tr := &hx.Transport{}
	soft := vrt.Bool("soft")
	conn := NewWithOptions(tr, Options{Manager: drpcmanager.Options{SoftCancel: soft}})
	enc := hx.ByteEnc{}
	ctx1 := hx.NewCtx()
	s1, err := conn.NewStream(ctx1, "rpc1", enc)
	vrt.Assert(err == nil, "RPC 1 starts")
	vrt.Assert(s1.Close() == nil, "RPC 1 closes")
	ctx1.Cancel(context.Canceled)
	vrt.Quiesce()
	vrt.Assert(!hx.IsClosedCh(conn.Closed()), "cancelling a call that was already closed leaves the connection open")
	if hx.IsClosedCh(conn.Closed()) {
		return
	}
	ctx2 := hx.NewCtx()
	s2, err := conn.NewStream(ctx2, "rpc2", enc)
	vrt.Assert(err == nil, "RPC 2 starts on the reused connection")
	if err != nil {
		return
	}
	var rerr error
	rdone := false
	go func() { var o []byte; rerr = s2.MsgRecv(&o, enc); rdone = true }()
	vrt.Quiesce()
	vrt.Assert(!rdone, "RPC 2's receive is blocked (nothing sent by the peer)")
	if vrt.Bool("endByClose") {
		cdone := false
		go func() { conn.Close(); cdone = true }()
		vrt.Quiesce()
		vrt.Assert(cdone, "Close returns")
		vrt.Assert(rdone && rerr != nil, "Close fails the pending receive of the active stream")
		vrt.Assert(hx.IsClosedCh(s2.Context().Done()), "Close cancels the context of the active stream")
		vrt.Assert(vrt.Unfinished() == 0, "no goroutine is left behind")
		vrt.Cover("overlap-close-end")
		return
	}
	ctx2.Cancel(context.Canceled)
	vrt.Quiesce()
	vrt.Assert(rdone && rerr == context.Canceled, "RPC 2's own cancel is delivered although RPC 1 finished and was cancelled at once")
	vrt.Cover("overlap-end")
	conn.Close()
}

// VerifH_ConcurrentCallers: two goroutines start an RPC concurrently on one connection;
// the scripted server answers stream s with the byte 0x40+s. Each caller must receive the
// answer belonging to the stream it was given, ids are distinct, and on the wire no frame
// of the earlier stream follows a frame of the later one.
func VerifH_ConcurrentCallers() {
	tr := &hx.Transport{}
	conn := NewWithOptions(tr, Options{Manager: drpcmanager.Options{SoftCancel: vrt.Bool("soft")}})
	enc := hx.ByteEnc{}
	for s := uint64(1); s <= 2; s++ {
		tr.Feed(hx.Pkt(drpcwire.KindMessage, s, 1, false, []byte{byte(0x40 + s)}))
		tr.Feed(hx.Pkt(drpcwire.KindCloseSend, s, 2, false, nil))
	}
	var ids [2]uint64
	var got [2][]byte
	var errs [2]error
	var done [2]bool
	call := func(i int) {
		st, err := conn.NewStream(hx.NewCtx(), "rpc", enc)
		if err != nil {
			errs[i] = err
			done[i] = true
			return
		}
		ids[i] = st.(interface{ ID() uint64 }).ID()
		m := []byte{byte(i)}
		if err := st.MsgSend(&m, enc); err != nil {
			errs[i] = err
		} else if err := st.MsgRecv(&got[i], enc); err != nil {
			errs[i] = err
		}
		_ = st.Close()
		done[i] = true
	}
	go call(0)
	go call(1)
	vrt.Quiesce()
	vrt.Assert(done[0] && done[1], "both callers complete")
	vrt.Assert(errs[0] == nil && errs[1] == nil, "both RPCs succeed")
	vrt.Assert(ids[0] != ids[1] && ids[0]+ids[1] == 3, "stream ids are distinct and consecutive")
	for i := 0; i < 2; i++ {
		if errs[i] == nil {
			vrt.Assert(len(got[i]) == 1 && got[i][0] == byte(0x40+ids[i]), "each caller receives the response sent on its own stream")
		}
	}
	pkts, ok := hx.ParseOut(tr.Out)
	vrt.Assert(ok, "client output is well-formed")
	seen2 := false
	for _, p := range pkts {
		if p.Sid == 2 {
			seen2 = true
		}
		if seen2 {
			vrt.Assert(p.Sid == 2, "no frame of the earlier stream follows a frame of the later one")
		}
	}
	vrt.Assert(!tr.Reenter && !tr.RReenter, "the transport never sees two writes or two reads in flight")
	vrt.Cover("callers-end")
	conn.Close()
}

// gateEnc marshals a fixed request; Marshal of the request tagged slow parks until released.
type gateEnc struct {
	slowTag byte
	release *bool
	entered *bool
}

func (g gateEnc) Marshal(msg drpc.Message) ([]byte, error) {
	b := *(msg.(*[]byte))
	if len(b) > 0 && b[0] == g.slowTag {
		*g.entered = true
		vrt.WaitFor(g.release)
	}
	return append([]byte(nil), b...), nil
}

func (g gateEnc) Unmarshal(buf []byte, msg drpc.Message) error {
	*(msg.(*[]byte)) = append([]byte(nil), buf...)
	return nil
}

// VerifH_ConcurrentInvokes: soft cancel. Invoke A holds the stream and is slow to encode
// its request; its context is cancelled, which lets Invoke B start on the next stream. A's
// encoding then completes while B is between encoding and writing its request. Every
// request that appears on the wire under a stream id must be the request of the caller
// that owns that stream: B's stream carries B's request.
func VerifH_ConcurrentInvokes() {
	tr := &hx.Transport{}
	conn := NewWithOptions(tr, Options{Manager: drpcmanager.Options{SoftCancel: true, WriterBufferSize: 1}})
	release, entered := false, false
	enc := gateEnc{slowTag: 0xA0, release: &release, entered: &entered}
	// grow the shared request buffer first (a completed earlier call)
	tr.Feed(hx.Pkt(drpcwire.KindMessage, 1, 1, false, []byte{0x41}))
	tr.Feed(hx.Pkt(drpcwire.KindCloseSend, 1, 2, false, nil))
	warm := []byte{0x10, 0x11, 0x12}
	var w []byte
	vrt.Assert(conn.Invoke(hx.NewCtx(), "warm", enc, &warm, &w) == nil, "warm-up call succeeds")
	vrt.Quiesce()
	ctxA := hx.NewCtx()
	reqA := []byte{0xA0, 0xA1, 0xA2}
	reqB := []byte{0xB0, 0xB1, 0xB2}
	var errA, errB error
	var outA, outB []byte
	dA, dB := false, false
	go func() { errA = conn.Invoke(ctxA, "a", enc, &reqA, &outA); dA = true }()
	vrt.WaitFor(&entered) // A holds stream 2 and is inside its (slow) encoding
	ctxA.Cancel(context.Canceled)
	vrt.Quiesce()
	// the server answers stream 3 (B)
	tr.Feed(hx.Pkt(drpcwire.KindMessage, 3, 1, false, []byte{0x43}))
	tr.Feed(hx.Pkt(drpcwire.KindCloseSend, 3, 2, false, nil))
	go func() { errB = conn.Invoke(hx.NewCtx(), "b", enc, &reqB, &outB); dB = true }()
	go func() { vrt.Yield(); release = true }()
	vrt.Quiesce()
	release = true
	vrt.Quiesce()
	vrt.Assert(dA && dB, "both calls return")
	vrt.Assert(errA != nil, "the cancelled call fails")
	vrt.Assert(!hx.IsClosedCh(conn.Closed()), "a soft cancel with no write in flight leaves the connection open")
	if hx.IsClosedCh(conn.Closed()) {
		return
	}
	vrt.Assert(errB == nil && len(outB) == 1 && outB[0] == 0x43, "the second call succeeds with its own response")
	pkts, ok := hx.ParseOut(tr.Out)
	vrt.Assert(ok, "client output is well-formed")
	for _, p := range pkts {
		if p.Kind == drpcwire.KindMessage && p.Sid == 3 {
			vrt.Assert(len(p.Data) == 3 && p.Data[0] == 0xB0 && p.Data[1] == 0xB1 && p.Data[2] == 0xB2, "the request sent on B's stream is B's request")
		}
		if p.Kind == drpcwire.KindMessage && p.Sid == 2 {
			vrt.Assert(len(p.Data) == 3 && p.Data[0] == 0xA0, "a request sent on A's stream is A's request")
		}
	}
	vrt.Cover("invokes-end")
	conn.Close()
}

// VerifH_ManyMessages: a server-streaming response of n messages (one larger one followed
// by small ones, as the manager's buffer-shrinking heuristic counts them) is received by
// the client through the real reader/manager/stream: every message arrives intact, in
// order, then end-of-stream.
func VerifH_ManyMessages() {
	tr := &hx.Transport{}
	conn := New(tr)
	enc := hx.ByteEnc{}
	n := vrt.Param("n", 14)
	big := make([]byte, 40)
	for i := range big {
		big[i] = byte(i)
	}
	tr.Feed(hx.Pkt(drpcwire.KindMessage, 1, 1, false, big))
	for i := 1; i < n; i++ {
		tr.Feed(hx.Pkt(drpcwire.KindMessage, 1, uint64(i+1), false, []byte{byte(0x80 + i), vrt.U8("b")}))
	}
	tr.Feed(hx.Pkt(drpcwire.KindCloseSend, 1, uint64(n+1), false, nil))
	st, err := conn.NewStream(hx.NewCtx(), "rpc", enc)
	vrt.Assert(err == nil, "stream starts")
	done := false
	okAll := true
	go func() {
		for i := 0; i < n; i++ {
			var got []byte
			if err := st.MsgRecv(&got, enc); err != nil {
				okAll = false
				break
			}
			if i == 0 {
				if len(got) != 40 || got[39] != 39 {
					okAll = false
				}
			} else if len(got) != 2 || got[0] != byte(0x80+i) {
				okAll = false
			}
		}
		var last []byte
		if st.MsgRecv(&last, enc) == nil {
			okAll = false
		}
		done = true
	}()
	vrt.Quiesce()
	vrt.Assert(done, "the receiver completes")
	vrt.Assert(okAll, "every message arrives intact and in order, then end-of-stream")
	vrt.Cover("manymsgs-end")
	conn.Close()
}

// invGate parks the write that carries the invoke frame of one stream until released
// (with a 1-byte writer buffer every frame is written to the transport on its own).
type invGate struct {
	*hx.Transport
	sid     uint64
	release *bool
	parked  *bool
}

func (g invGate) Write(p []byte) (int, error) {
	_, fr, ok, err := drpcwire.ParseFrame(p)
	if ok && err == nil && fr.Kind == drpcwire.KindInvoke && fr.ID.Stream == g.sid {
		*g.parked = true
		vrt.WaitFor(g.release)
	}
	return g.Transport.Write(p)
}

// VerifH_InvokeBufferIsolation: both cancel modes. Unary call A is cancelled at an arbitrary
// moment (a separate goroutine, free-running); unary call B starts on the next
// stream and the write of its invoke frame is held up inside the transport, so that A may
// encode its request while B is between encoding and sending its own. Whatever the
// schedule, a request that appears on the wire under a stream id is the request of the
// call that owns that stream, and a call that succeeds returns the response to its own request.
func VerifH_InvokeBufferIsolation() {
	base := &hx.Transport{}
	release, parked := false, false
	tr := invGate{Transport: base, sid: 2, release: &release, parked: &parked}
	conn := NewWithOptions(tr, Options{Manager: drpcmanager.Options{SoftCancel: vrt.Bool("soft"), WriterBufferSize: 1}})
	enc := hx.ByteEnc{}
	ctxA := hx.NewCtx()
	reqA := []byte{0xA0, 0xA1, 0xA2}
	reqB := []byte{0xB0, 0xB1, 0xB2}
	var errA, errB error
	var outA, outB []byte
	dA, dB := false, false
	for s := uint64(1); s <= 2; s++ {
		base.Feed(hx.Pkt(drpcwire.KindMessage, s, 1, false, []byte{byte(0x40 + s)}))
		base.Feed(hx.Pkt(drpcwire.KindCloseSend, s, 2, false, nil))
	}
	go func() { errA = conn.Invoke(ctxA, "a", enc, &reqA, &outA); dA = true }()
	go func() { ctxA.Cancel(context.Canceled) }()
	go func() { errB = conn.Invoke(hx.NewCtx(), "b", enc, &reqB, &outB); dB = true }()
	vrt.Quiesce()
	release = true
	vrt.Quiesce()
	vrt.Assert(dA && dB, "both calls return")
	if hx.IsClosedCh(conn.Closed()) {
		vrt.Cover("isolation-conn-closed")
		return
	}
	pkts, ok := hx.ParseOut(base.Out)
	vrt.Assert(ok, "client output is well-formed")
	owner := map[uint64]byte{}
	for _, p := range pkts {
		if p.Kind == drpcwire.KindInvoke && len(p.Data) == 1 {
			_, dup := owner[p.Sid]
			vrt.Tag("duplicate-stream-id", dup)
			vrt.Assert(!dup, "every call on the connection gets a stream id of its own")
			owner[p.Sid] = p.Data[0]
		}
	}
	for _, p := range pkts {
		if p.Kind != drpcwire.KindMessage {
			continue
		}
		switch owner[p.Sid] {
		case 'a':
			vrt.Assert(len(p.Data) == 3 && p.Data[0] == 0xA0 && p.Data[1] == 0xA1 && p.Data[2] == 0xA2, "the request sent on A's stream is A's request")
		case 'b':
			vrt.Assert(len(p.Data) == 3 && p.Data[0] == 0xB0 && p.Data[1] == 0xB1 && p.Data[2] == 0xB2, "the request sent on B's stream is B's request")
			vrt.Cover("isolation-b-sent")
		default:
			vrt.Assert(false, "a request appears only on a stream that was invoked")
		}
	}
	_, _ = errA, errB
	vrt.Cover("isolation-end")
	conn.Close()
}

// VerifH_CancelAfterFinished: RPC 1 is ended by the peer (half-close answering ours, close
// or error). A goroutine waits until the stream reports itself finished (its context is
// done - what a pool or an application waits for before reusing the connection) and only
// then cancels the call's context. That late cancel concerns a call that is already over:
// the connection stays open and RPC 2 on it works, in both cancel modes.
func VerifH_CancelAfterFinished() {
	tr := &hx.Transport{}
	conn := NewWithOptions(tr, Options{Manager: drpcmanager.Options{SoftCancel: vrt.Bool("soft")}})
	enc := hx.ByteEnc{}
	ctx1 := hx.NewCtx()
	s1, err := conn.NewStream(ctx1, "rpc1", enc)
	vrt.Assert(err == nil, "RPC 1 starts")
	switch vrt.Choice("end", 3) {
	case 0:
		vrt.Assert(s1.CloseSend() == nil, "RPC 1 half-closes")
		tr.Feed(hx.Pkt(drpcwire.KindCloseSend, 1, 1, false, nil))
	case 1:
		tr.Feed(hx.Pkt(drpcwire.KindClose, 1, 1, false, nil))
	case 2:
		tr.Feed(hx.Pkt(drpcwire.KindError, 1, 1, false, []byte{0, 0, 0, 0, 0, 0, 0, 3, 'e'}))
	}
	go func() {
		<-s1.Context().Done()
		ctx1.Cancel(context.Canceled)
	}()
	vrt.Quiesce()
	vrt.Assert(hx.IsClosedCh(s1.Context().Done()), "RPC 1 is finished")
	vrt.Tag("late-cancel-closed-connection", hx.IsClosedCh(conn.Closed()))
	vrt.Assert(!hx.IsClosedCh(conn.Closed()), "cancelling a call that is already finished leaves the connection open")
	if hx.IsClosedCh(conn.Closed()) {
		return
	}
	tr.Feed(hx.Pkt(drpcwire.KindMessage, 2, 1, false, []byte{0x42}))
	s2, err := conn.NewStream(hx.NewCtx(), "rpc2", enc)
	vrt.Assert(err == nil, "RPC 2 starts on the reused connection")
	if err != nil {
		return
	}
	var out []byte
	var rerr error
	rdone := false
	go func() { rerr = s2.MsgRecv(&out, enc); rdone = true }()
	vrt.Quiesce()
	vrt.Assert(rdone && rerr == nil && len(out) == 1 && out[0] == 0x42, "RPC 2 receives its response")
	vrt.Cover("cancel-after-finished-end")
	conn.Close()
}
