package drpcmanager

import (
	"storj.io/drpc/drpcwire"
	vrt "storj.io/drpc/internal/verifrt"
	"storj.io/drpc/internal/verifrt/hx"
)

// VerifH_ManagerHostilePackets: a manager (server role: NewServerStream loop; or client
// role: one open stream with a blocked receive) is fed up to three packets with symbolic
// kind (0..9), stream id (0..3), message id, control bit and payload - whatever a hostile
// or confused peer might send, valid frames or not. Nothing panics; after the transport is
// closed everything returns and no goroutine is left.
func VerifH_ManagerHostilePackets() {
	tr := &hx.Transport{}
	m := NewWithOptions(tr, Options{})
	client := vrt.Bool("clientRole")
	n := 1 + vrt.Choice("extra", vrt.Param("maxpkts", 3))
	for i := 0; i < n; i++ {
		k := vrt.U8("kind")
		sid := vrt.U8("sid")
		mid := vrt.U8("mid")
		vrt.Assume(k <= 9 && sid <= 3 && mid <= 4)
		data := []byte{vrt.U8("d0"), vrt.U8("d1")}
		if vrt.Bool("emptyData") {
			data = nil
		}
		tr.Feed(hx.Pkt(drpcwire.Kind(k), uint64(sid), uint64(mid), vrt.Bool("control"), data))
	}
	done := false
	if client {
		st, err := m.NewClientStream(hx.NewCtx(), "rpc")
		if err != nil {
			// the hostile packets already terminated the connection
			vrt.Assert(hx.IsClosedCh(m.Closed()), "NewClientStream fails only on a terminated manager")
			done = true
		}
		go func() {
			if err != nil {
				return
			}
			for i := 0; i < 4; i++ {
				var in []byte
				if err := st.MsgRecv(&in, hx.ByteEnc{}); err != nil {
					break
				}
			}
			done = true
		}()
	} else {
		go func() {
			for i := 0; i < 4; i++ {
				st, _, err := m.NewServerStream(hx.NewCtx())
				if err != nil {
					break
				}
				var in []byte
				_ = st.MsgRecv(&in, hx.ByteEnc{})
				_ = st.CloseSend()
				st.Cancel(nil)
			}
			done = true
		}()
	}
	vrt.Quiesce()
	// the peer goes away
	tr.Close()
	vrt.Quiesce()
	cd := false
	go func() { m.Close(); cd = true }()
	vrt.Quiesce()
	vrt.Assert(cd, "Close completes whatever the peer sent")
	vrt.Assert(done, "the application loop returns")
	vrt.Assert(vrt.Unfinished() == 0, "no goroutine is left behind")
	vrt.Cover("hostile-packets-end")
}
