package drpcserver

import (
	"storj.io/drpc"
	"storj.io/drpc/drpcwire"
	vrt "storj.io/drpc/internal/verifrt"
	"storj.io/drpc/internal/verifrt/hx"
)

const (
	endCloseSendThenClose = iota // unary-style: CloseSend, (response), Close
	endClose                     // client closes the stream
	endCancelAfterInvoke         // soft cancel after the invoke
	endCancelOnly                // soft cancel before the invoke was written: only the Cancel packet
	endCancelAfterMeta           // metadata sent, then cancelled before the invoke
	numEndings
)

// paramHandler is the parametric application handler: reads k messages, optionally
// responds, returns nil or an error. The probe RPC records what it received.
type paramHandler struct {
	k              int
	respond        bool
	fail           bool
	served         int
	probeSeen      bool
	probeGot       []byte
	pause          bool // the handler takes its time after reading: it waits for proceed
	proceed        bool
	closeSendFirst bool // the handler half-closes explicitly before returning
}

func (h *paramHandler) HandleRPC(stream drpc.Stream, rpc string) error {
	if rpc == "probe" {
		h.probeSeen = true
		var in []byte
		if err := stream.MsgRecv(&in, hx.ByteEnc{}); err == nil {
			h.probeGot = in
		}
		out := []byte{0x55}
		_ = stream.MsgSend(&out, hx.ByteEnc{})
		h.served++
		return nil
	}
	for x := 0; x < h.k; x++ {
		var in []byte
		if err := stream.MsgRecv(&in, hx.ByteEnc{}); err != nil {
			break
		}
	}
	if h.pause {
		vrt.WaitFor(&h.proceed)
	}
	if h.respond {
		out := []byte{0x11}
		_ = stream.MsgSend(&out, hx.ByteEnc{})
	}
	h.served++
	if h.closeSendFirst {
		_ = stream.CloseSend()
	}
	if h.fail {
		return &hx.Err{S: "handler failed"}
	}
	return nil
}

// VerifH_ServerNextRPC: the real ServeOne loop over a scripted transport. A conforming
// client runs RPC 1 (j messages, one of the endings), the handler reads k of them,
// optionally responds, returns nil or an error; then the client issues a probe RPC. At
// quiescence the probe must have reached its handler and been answered.
func VerifH_ServerNextRPC() {
	tr := &hx.Transport{}
	j := vrt.Int("j")
	k := vrt.Int("k")
	maxj := vrt.Param("maxj", 2)
	vrt.Assume(j >= 0 && j <= maxj && k >= 0 && k <= maxj)
	ending := vrt.Int("ending")
	vrt.Assume(ending >= 0 && ending < numEndings)
	h := &paramHandler{k: k, respond: vrt.Bool("respond"), fail: vrt.Bool("fail"), pause: vrt.Bool("pause"), closeSendFirst: vrt.Bool("closeSendFirst")}
	vrt.Tag("cancel-for-never-invoked-stream", ending == endCancelOnly || ending == endCancelAfterMeta)
	vrt.Tag("handler-leaves-messages-unread", k < j && ending != endCancelOnly && ending != endCancelAfterMeta)

	// ---- client script: everything the client sends is already on the wire ----
	mid := uint64(1)
	next := func() uint64 { mid++; return mid - 1 }
	switch ending {
	case endCancelOnly:
		tr.Feed(hx.Pkt(drpcwire.KindCancel, 1, next(), true, nil))
	case endCancelAfterMeta:
		tr.Feed(hx.Pkt(drpcwire.KindInvokeMetadata, 1, next(), false, nil))
		tr.Feed(hx.Pkt(drpcwire.KindCancel, 1, next(), true, nil))
	default:
		tr.Feed(hx.Pkt(drpcwire.KindInvoke, 1, next(), false, []byte("rpc1")))
		for i := 0; i < j; i++ {
			tr.Feed(hx.Pkt(drpcwire.KindMessage, 1, next(), false, []byte{byte(i)}))
		}
		switch ending {
		case endCloseSendThenClose:
			tr.Feed(hx.Pkt(drpcwire.KindCloseSend, 1, next(), false, nil))
			tr.Feed(hx.Pkt(drpcwire.KindClose, 1, next(), false, nil))
		case endClose:
			tr.Feed(hx.Pkt(drpcwire.KindClose, 1, next(), false, nil))
		case endCancelAfterInvoke:
			tr.Feed(hx.Pkt(drpcwire.KindCancel, 1, next(), true, nil))
		}
	}
	tr.Feed(hx.Pkt(drpcwire.KindInvoke, 2, 1, false, []byte("probe")))
	tr.Feed(hx.Pkt(drpcwire.KindMessage, 2, 2, false, []byte{0x77}))
	tr.Feed(hx.Pkt(drpcwire.KindCloseSend, 2, 3, false, nil))

	srv := New(h)
	ctx := hx.NewCtx()
	var serveErr error
	serveDone := false
	go func() {
		serveErr = srv.ServeOne(ctx, tr)
		serveDone = true
	}()
	vrt.Quiesce()
	if h.pause {
		// the reader has run as far ahead of the slow handler as it can; let the handler finish
		h.proceed = true
		vrt.Quiesce()
	}
	vrt.Assert(!serveDone && !tr.Closed, "connection still open (the transport keeps moving bytes, nobody closed it)")
	vrt.Assert(h.probeSeen, "the probe RPC reaches its handler")
	if h.probeSeen {
		vrt.Assert(len(h.probeGot) == 1 && h.probeGot[0] == 0x77, "the probe handler receives the probe's own message")
		pkts, ok := hx.ParseOut(tr.Out)
		vrt.Assert(ok, "server output is well-formed")
		answered := false
		for _, p := range pkts {
			if p.Sid == 2 && p.Kind == drpcwire.KindMessage && len(p.Data) == 1 && p.Data[0] == 0x55 {
				answered = true
			}
			if p.Sid == 2 && p.Kind == drpcwire.KindMessage {
				vrt.Assert(len(p.Data) == 1 && p.Data[0] == 0x55, "probe stream carries only the probe's response")
			}
		}
		vrt.Assert(answered, "the probe's response is written to the transport")
		vrt.Cover("probe-handled")
		// RPC 1's own outcome on the wire: the handler's response message (if any) precedes
		// its final packet, and a failing handler's final packet is an Error carrying
		// exactly its message (code 0), a succeeding one's a CloseSend.
		if ending != endCancelOnly && ending != endCancelAfterMeta && h.served == 2 {
			sawMsg, sawFinal := false, false
			for _, p := range pkts {
				if p.Sid != 1 {
					continue
				}
				switch p.Kind {
				case drpcwire.KindMessage:
					vrt.Assert(!sawFinal, "messages the handler sent precede its final packet")
					vrt.Assert(len(p.Data) == 1 && p.Data[0] == 0x11, "the handler's response is intact")
					sawMsg = true
				case drpcwire.KindError:
					vrt.Assert(h.fail, "an error packet only for a failing handler")
					want := append([]byte{0, 0, 0, 0, 0, 0, 0, 0}, "handler failed"...)
					okp := len(p.Data) == len(want)
					for i := 0; okp && i < len(want); i++ {
						okp = p.Data[i] == want[i]
					}
					vrt.Assert(okp, "the error packet carries exactly the handler's message and code")
					sawFinal = true
				case drpcwire.KindCloseSend:
					vrt.Assert(!h.fail || h.closeSendFirst, "a successful handler never yields an error at the client")
					if !h.fail {
						sawFinal = true
					}
				}
			}
			if sawFinal && h.respond && ending == endCloseSendThenClose {
				vrt.Cover("rpc1-response-then-final")
			}
			_ = sawMsg
		}
	}
	// tear down: the client goes away
	tr.Close()
	vrt.Quiesce()
	vrt.Assert(serveDone, "ServeOne returns once the transport is closed")
	_ = serveErr
}
