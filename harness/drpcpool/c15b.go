package drpcpool

import (
	"context"

	"storj.io/drpc/drpcconn"
	"storj.io/drpc/drpcmanager"
	"storj.io/drpc/drpcwire"
	vrt "storj.io/drpc/internal/verifrt"
	"storj.io/drpc/internal/verifrt/hx"
)

// VerifH_PooledRealConn: the pool caching real drpcconn connections over scripted transports
// (Capacity 1). Two client-streaming calls one after the other through pooled handles: each
// waits for its stream's Done (the point at which the pool promises the connection is
// reusable) and then cancels its own context - concurrently with the next call taking the
// connection. The second call must succeed on the same, still open connection: the pool
// never hands out a connection that is (being) closed, and nothing is dialled twice.
func VerifH_PooledRealConn() {
	p := New[uint8, *drpcconn.Conn](Options{Capacity: 1})
	soft := vrt.Bool("soft")
	var trs []*hx.Transport
	var conns []*drpcconn.Conn
	dial := func(ctx context.Context, key uint8) (*drpcconn.Conn, error) {
		tr := &hx.Transport{}
		c := drpcconn.NewWithOptions(tr, drpcconn.Options{Manager: drpcmanager.Options{SoftCancel: soft}})
		trs = append(trs, tr)
		conns = append(conns, c)
		return c, nil
	}
	enc := hx.ByteEnc{}
	call := func(i int) error {
		ctx := hx.NewCtx()
		h := p.Get(ctx, 7, dial)
		st, err := h.NewStream(ctx, "rpc", enc)
		if err != nil {
			return err
		}
		m := []byte{byte(i)}
		if err := st.MsgSend(&m, enc); err != nil {
			return err
		}
		if err := st.CloseSend(); err != nil {
			return err
		}
		// the server answers and half-closes: stream i+1 on the (single) connection
		tr := trs[len(trs)-1]
		sid := uint64(i + 1)
		if len(trs) > 1 {
			sid = 1
		}
		tr.Feed(hx.Pkt(drpcwire.KindMessage, sid, 1, false, []byte{byte(0x40 + i)}))
		tr.Feed(hx.Pkt(drpcwire.KindCloseSend, sid, 2, false, nil))
		var out []byte
		if err := st.MsgRecv(&out, enc); err != nil {
			return err
		}
		vrt.Assert(len(out) == 1 && out[0] == byte(0x40+i), "each call receives its own response")
		<-st.Context().Done() // the connection is back in the pool
		go func() { ctx.Cancel(context.Canceled) }()
		return h.Close()
	}
	err0 := call(0)
	vrt.Assert(err0 == nil, "the first pooled call succeeds")
	err1 := call(1)
	vrt.Quiesce()
	vrt.Tag("pooled-conn-closed-underneath", len(conns) > 0 && hx.IsClosedCh(conns[0].Closed()))
	vrt.Assert(err1 == nil, "the second pooled call succeeds on the reused connection")
	vrt.Assert(len(conns) == 1, "the cached connection is reused instead of dialling again")
	vrt.Assert(len(conns) > 0 && !hx.IsClosedCh(conns[0].Closed()), "the reused connection was not closed underneath its user")
	vrt.Cover("pooled-real-end")
	p.Close()
}

// VerifH_PoolSkipsClosingConn: a real connection whose Close is in progress (the transport's
// Close has not returned yet) reports itself closed already, so the pool neither caches
// nor hands it out.
func VerifH_PoolSkipsClosingConn() {
	tr := &hx.Transport{}
	release := false
	tr.CloseGate = &release
	conn := drpcconn.NewWithOptions(tr, drpcconn.Options{Manager: drpcmanager.Options{SoftCancel: vrt.Bool("soft")}})
	p := New[uint8, *drpcconn.Conn](Options{Capacity: 2})
	how := vrt.Choice("how", 2)
	ctx := hx.NewCtx()
	switch how {
	case 0: // the application closes the connection
		go func() { _ = conn.Close() }()
	case 1: // the peer goes away: the reader terminates the manager
		tr.EOF = true
		tr.CanRead = true
	}
	vrt.Quiesce()
	vrt.Assert(tr.InClose, "the termination is inside the transport's Close")
	vrt.Assert(hx.IsClosedCh(conn.Closed()), "a connection reports itself closed as soon as its termination has begun")
	_, err := conn.NewStream(ctx, "rpc", hx.ByteEnc{})
	vrt.Assert(err != nil, "calls on it fail")
	p.Put(7, conn)
	got, ok := p.Take(7)
	vrt.Assert(!ok, "the pool does not hand out a connection that is being closed")
	_ = got
	release = true
	vrt.Quiesce()
	vrt.Assert(tr.Closes == 1, "transport closed exactly once")
	vrt.Cover("pool-skips-closing-end")
	p.Close()
}
