package main

import (
	"fmt"
	"go/token"
	"go/types"
	"os"

	"golang.org/x/tools/go/ssa"
)

type schedOpt struct {
	thread int
	cost   int
}

type forkSched struct{ opts []schedOpt }
type yield struct{}

// visible operations implemented as intrinsics: name -> enabledness test
var visibleCalls = map[string]func(e *Engine, st *State, th *Thread, args []Value) bool{}

// pendingInstr returns the instruction the thread is parked at.
func pendingInstr(th *Thread) ssa.Instruction {
	if len(th.frames) == 0 {
		return nil
	}
	fr := th.top()
	if fr.pc >= len(fr.block.Instrs) {
		return nil
	}
	return fr.block.Instrs[fr.pc]
}

// enabledAt reports whether the thread's pending visible operation can execute now.
func (e *Engine) enabledAt(st *State, th *Thread) bool {
	if th.finished {
		return false
	}
	if !th.started {
		return true
	}
	if th.wake != nil {
		return true
	}
	in := pendingInstr(th)
	fr := th.top()
	switch x := in.(type) {
	case *ssa.Call:
		name, args := e.resolveCall(st, fr, x.Common())
		if en, ok := visibleCalls[name]; ok {
			if en == nil {
				return true
			}
			return en(e, st, th, args)
		}
		return true
	case *ssa.UnOp:
		if x.Op == token.ARROW {
			ch := e.val(st, fr, x.X).(ChanV)
			return e.chanReady(st, th, ChanCase{ch: ch.obj, send: false}) >= 0
		}
		return true
	case *ssa.Send:
		ch := e.val(st, fr, x.Chan).(ChanV)
		return e.chanReady(st, th, ChanCase{ch: ch.obj, send: true}) >= 0
	case *ssa.Select:
		if !x.Blocking {
			return true
		}
		for _, s := range x.States {
			ch := e.val(st, fr, s.Chan).(ChanV)
			if e.chanReady(st, th, ChanCase{ch: ch.obj, send: s.Dir == types.SendOnly}) >= 0 {
				return true
			}
		}
		return false
	}
	return true
}

// resolveCall finds the static name of a call's target (after substitution) and its args.
func (e *Engine) resolveCall(st *State, fr *Frame, c *ssa.CallCommon) (string, []Value) {
	args := make([]Value, 0, len(c.Args)+1)
	for _, a := range c.Args {
		args = append(args, e.val(st, fr, a))
	}
	if c.IsInvoke() {
		recv, ok := e.val(st, fr, c.Value).(IfaceV)
		if !ok || recv.t == nil {
			return "", nil
		}
		fn := e.prog.LookupMethod(recv.t, c.Method.Pkg(), c.Method.Name())
		if fn == nil {
			return "", nil
		}
		args = append([]Value{recv.v}, args...)
		return e.substName(fn), args
	}
	fv, ok := e.val(st, fr, c.Value).(FuncV)
	if !ok || fv.fn == nil {
		return "", nil
	}
	return e.substName(fv.fn), args
}

func (e *Engine) substName(fn *ssa.Function) string {
	name := fnName(fn)
	if sub, ok := e.subst[name]; ok {
		return fnName(sub)
	}
	return name
}

// chanReady returns >=0 if the channel operation can proceed now:
// 0 = via buffer/closed state, 1+tid = rendez-vous with parked thread tid.
func (e *Engine) chanReady(st *State, me *Thread, c ChanCase) int {
	if c.ch == 0 {
		return -1
	}
	cd := st.heap[c.ch].(*ChanData)
	if c.send {
		if cd.closed {
			return 0 // will panic
		}
		if cd.cap > 0 {
			if len(cd.buf) < cd.cap {
				return 0
			}
			return -1
		}
	} else {
		if len(cd.buf) > 0 || cd.closed {
			return 0
		}
		if cd.cap > 0 {
			return -1
		}
	}
	// unbuffered: look for a parked partner. A goroutine can only be met on a channel if it
	// is blocked there: one whose select has another case ready (a closed channel, buffered
	// data) is not in the channel's wait queue - it either has not reached the select yet or
	// has already been woken through that other case - so it is no partner.
	for _, u := range st.threads {
		if u == me || u.finished || !u.started || u.wake != nil {
			continue
		}
		if e.partnerCase(st, u, c) >= 0 && !e.readyByState(st, u) {
			return 1 + u.id
		}
	}
	return -1
}

// chanStateReady reports whether the operation can proceed through the channel's own state
// (buffer space / buffered data / closed), without a partner.
func (e *Engine) chanStateReady(st *State, c ChanCase) bool {
	if c.ch == 0 {
		return false
	}
	cd := st.heap[c.ch].(*ChanData)
	if c.send {
		return cd.closed || (cd.cap > 0 && len(cd.buf) < cd.cap)
	}
	return len(cd.buf) > 0 || cd.closed
}

// readyByState reports whether the thread's pending channel operation could proceed without
// any partner (so the thread is not parked in a wait queue).
func (e *Engine) readyByState(st *State, u *Thread) bool {
	in := pendingInstr(u)
	fr := u.top()
	switch x := in.(type) {
	case *ssa.UnOp:
		if x.Op == token.ARROW {
			return e.chanStateReady(st, ChanCase{ch: e.val(st, fr, x.X).(ChanV).obj})
		}
	case *ssa.Send:
		return e.chanStateReady(st, ChanCase{ch: e.val(st, fr, x.Chan).(ChanV).obj, send: true})
	case *ssa.Select:
		if !x.Blocking {
			return true
		}
		for _, s := range x.States {
			if e.chanStateReady(st, ChanCase{ch: e.val(st, fr, s.Chan).(ChanV).obj, send: s.Dir == types.SendOnly}) {
				return true
			}
		}
	}
	return false
}

// partnerCase returns the index of the case of u's pending chan op that complements c, or -1.
func (e *Engine) partnerCase(st *State, u *Thread, c ChanCase) int {
	in := pendingInstr(u)
	fr := u.top()
	switch x := in.(type) {
	case *ssa.UnOp:
		if x.Op == token.ARROW && c.send {
			if ch := e.val(st, fr, x.X).(ChanV); ch.obj == c.ch {
				return 0
			}
		}
	case *ssa.Send:
		if !c.send {
			if ch := e.val(st, fr, x.Chan).(ChanV); ch.obj == c.ch {
				return 0
			}
		}
	case *ssa.Select:
		if !x.Blocking {
			return -1
		}
		for i, s := range x.States {
			ch := e.val(st, fr, s.Chan).(ChanV)
			if ch.obj == c.ch && (s.Dir == types.SendOnly) != c.send {
				return i
			}
		}
	}
	return -1
}

// partnerSendVal returns the value the parked thread u would send in its case idx.
func (e *Engine) partnerSendVal(st *State, u *Thread, idx int) Value {
	in := pendingInstr(u)
	fr := u.top()
	switch x := in.(type) {
	case *ssa.Send:
		return e.val(st, fr, x.X)
	case *ssa.Select:
		return e.val(st, fr, x.States[idx].Send)
	}
	panic(engErr("partnerSendVal"))
}

// schedule is called by the running thread before a visible operation (or by
// the main loop when the running thread cannot continue).
func (e *Engine) schedule(st *State, op string, pos token.Pos) {
	cur := st.thread()
	curEnabled := !cur.finished && e.enabledAt(st, cur)
	var opts []schedOpt
	if curEnabled {
		opts = append(opts, schedOpt{cur.id, 0})
	}
	if !curEnabled || st.budget > 0 {
		for _, u := range st.threads {
			if u == cur || u.finished {
				continue
			}
			if e.enabledAt(st, u) {
				cost := 0
				if curEnabled {
					cost = 1
				}
				opts = append(opts, schedOpt{u.id, cost})
			}
		}
	}
	if len(opts) == 0 {
		panic(pathEnd{"deadlock"})
	}
	if len(opts) == 1 {
		e.applySched(st, opts[0], op, pos)
		if opts[0].thread != cur.id {
			panic(yield{})
		}
		return
	}
	panic(forkSched{opts})
}

func (e *Engine) applySched(st *State, o schedOpt, op string, pos token.Pos) {
	st.budget -= o.cost
	if o.thread != st.cur || o.cost > 0 {
		st.trace = append(st.trace, SchedEvent{Thread: o.thread, Op: op, Pos: posOf(e.prog, pos), Preempt: o.cost > 0})
	}
	st.cur = o.thread
	u := st.threads[o.thread]
	if !u.started {
		u.started = true
		u.granted = false
	} else {
		u.granted = true
	}
}

var traceAllOps = os.Getenv("GOSMT_TRACE_ALL") != ""

// schedPoint is invoked at the top of every visible operation.
func (e *Engine) schedPoint(st *State, th *Thread, op string, pos token.Pos) {
	if traceAllOps {
		// debugging aid: record every visible operation, not only the context switches
		st.trace = append(st.trace, SchedEvent{Thread: th.id, Op: "·" + op, Pos: posOf(e.prog, pos)})
	}
	if th.granted {
		return
	}
	if len(st.threads) == 1 {
		if !e.enabledAt(st, th) {
			panic(pathEnd{"deadlock"})
		}
		return
	}
	e.schedule(st, op, pos)
}

func (e *Engine) isSharedLoc(st *State, p Ptr) bool {
	if len(st.threads) <= 1 {
		return false
	}
	return p.obj != 0 && st.shared[p.obj]
}

// ---- channel operations ----

func (e *Engine) takeWake(th *Thread) *Wake {
	w := th.wake
	th.wake = nil
	return w
}

// wakeSync makes a thread resumed by its rendez-vous partner acquire the channel's clock.
func (e *Engine) wakeSync(st *State, th *Thread, ch int) {
	// the clocks were exchanged by the partner when it completed the rendez-vous
}

func (e *Engine) execRecv(st *State, th *Thread, fr *Frame, in *ssa.UnOp) {
	if w := e.takeWake(th); w != nil {
		th.granted = false
		e.wakeSync(st, th, e.val(st, fr, in.X).(ChanV).obj)
		e.setRecvResult(fr, in, in.CommaOk, w.val, w.ok)
		fr.pc++
		return
	}
	e.schedPoint(st, th, "recv", in.Pos())
	th.granted = false
	ch := e.val(st, fr, in.X).(ChanV)
	v, ok := e.doRecv(st, th, ch.obj, elemType(in.X.Type()))
	e.setRecvResult(fr, in, in.CommaOk, v, ok)
	fr.pc++
}

func (e *Engine) setRecvResult(fr *Frame, in ssa.Value, commaOk bool, v Value, ok bool) {
	if commaOk {
		e.setReg(fr, in, TupleV{v, e.ts.Bool(ok)})
	} else {
		e.setReg(fr, in, v)
	}
}

// doRecv performs an enabled receive.
func (e *Engine) doRecv(st *State, th *Thread, ch int, et types.Type) (Value, bool) {
	r := e.chanReady(st, th, ChanCase{ch: ch})
	if r < 0 {
		panic(engErr("doRecv on non-ready channel"))
	}
	cd := st.heap[ch].(*ChanData)
	if r == 0 {
		e.acquire(st, th, fmt.Sprintf("ch:%d", ch))
	} else {
		e.rendezvous(st, th, st.threads[r-1])
	}
	if r == 0 {
		if len(cd.buf) > 0 {
			nc := *cd
			v := cd.buf[0]
			nc.buf = append([]Value(nil), cd.buf[1:]...)
			st.heap[ch] = &nc
			return v, true
		}
		return e.zero(et), false // closed
	}
	u := st.threads[r-1]
	idx := e.partnerCase(st, u, ChanCase{ch: ch})
	v := e.partnerSendVal(st, u, idx)
	u.wake = &Wake{caseIdx: idx, ok: true}
	return v, true
}

func (e *Engine) doSend(st *State, th *Thread, ch int, v Value) {
	r := e.chanReady(st, th, ChanCase{ch: ch, send: true})
	if r < 0 {
		panic(engErr("doSend on non-ready channel"))
	}
	cd := st.heap[ch].(*ChanData)
	if cd.closed {
		panic(goPanic{"send on closed channel"})
	}
	if r == 0 {
		e.release(st, th, fmt.Sprintf("ch:%d", ch))
	} else {
		e.rendezvous(st, th, st.threads[r-1])
	}
	if r == 0 {
		nc := *cd
		nc.buf = append(append([]Value(nil), cd.buf...), v)
		st.heap[ch] = &nc
		return
	}
	u := st.threads[r-1]
	idx := e.partnerCase(st, u, ChanCase{ch: ch, send: true})
	u.wake = &Wake{caseIdx: idx, val: v, ok: true}
}

func (e *Engine) execSend(st *State, th *Thread, fr *Frame, in *ssa.Send) {
	if w := e.takeWake(th); w != nil {
		th.granted = false
		e.wakeSync(st, th, e.val(st, fr, in.Chan).(ChanV).obj)
		fr.pc++
		return
	}
	e.schedPoint(st, th, "send", in.Pos())
	th.granted = false
	ch := e.val(st, fr, in.Chan).(ChanV)
	e.doSend(st, th, ch.obj, e.val(st, fr, in.X))
	fr.pc++
}

func (e *Engine) execSelect(st *State, th *Thread, fr *Frame, in *ssa.Select) {
	ts := e.ts
	// result tuple: (index int, recvOk bool, r_0 T_0, ... r_n-1 T_n-1) for recv cases
	mkResult := func(idx int, recvOk bool, recvVal Value) Value {
		tv := TupleV{e.i64(uint64(idx)), ts.Bool(recvOk)}
		for i, s := range in.States {
			if s.Dir == types.RecvOnly {
				if i == idx && recvVal != nil {
					tv = append(tv, recvVal)
				} else {
					tv = append(tv, e.zero(elemType(s.Chan.Type())))
				}
			}
		}
		return tv
	}
	if w := e.takeWake(th); w != nil {
		th.granted = false
		s := in.States[w.caseIdx]
		e.wakeSync(st, th, e.val(st, fr, s.Chan).(ChanV).obj)
		if s.Dir == types.RecvOnly {
			e.setReg(fr, in, mkResult(w.caseIdx, w.ok, w.val))
		} else {
			e.setReg(fr, in, mkResult(w.caseIdx, false, nil))
		}
		fr.pc++
		return
	}
	e.schedPoint(st, th, "select", in.Pos())
	var ready []int
	for i, s := range in.States {
		ch := e.val(st, fr, s.Chan).(ChanV)
		if e.chanReady(st, th, ChanCase{ch: ch.obj, send: s.Dir == types.SendOnly}) >= 0 {
			ready = append(ready, i)
		}
	}
	if len(ready) == 0 {
		if in.Blocking {
			panic(engErr("select granted but not ready"))
		}
		th.granted = false
		e.setReg(fr, in, mkResult(-1, false, nil))
		// index -1 as int64
		tv := e.val(st, fr, in).(TupleV)
		tv[0] = e.i64(^uint64(0))
		fr.pc++
		return
	}
	pick := ready[e.choose(st, len(ready), "select")]
	th.granted = false
	s := in.States[pick]
	ch := e.val(st, fr, s.Chan).(ChanV)
	if s.Dir == types.SendOnly {
		e.doSend(st, th, ch.obj, e.val(st, fr, s.Send))
		e.setReg(fr, in, mkResult(pick, false, nil))
	} else {
		v, ok := e.doRecv(st, th, ch.obj, elemType(s.Chan.Type()))
		e.setReg(fr, in, mkResult(pick, ok, v))
	}
	fr.pc++
}

func (e *Engine) describeBlocked(st *State) []string {
	var out []string
	for _, u := range st.threads {
		if u.finished {
			continue
		}
		in := pendingInstr(u)
		pos := "?"
		what := "?"
		if in != nil {
			pos = posOf(e.prog, in.Pos())
			what = in.String()
			if len(what) > 80 {
				what = what[:80]
			}
		}
		out = append(out, fmt.Sprintf("thread %d (%s) at %s: %s [%s]", u.id, u.name, pos, what, e.stackOf(u)))
	}
	return out
}

func (e *Engine) stackOf(u *Thread) string {
	s := ""
	for i := len(u.frames) - 1; i >= 0 && i >= len(u.frames)-6; i-- {
		if s != "" {
			s += " < "
		}
		s += u.frames[i].fn.Name()
	}
	return s
}
