package drpcwire

import (
	vrt "storj.io/drpc/internal/verifrt"
)

// ---- reference decoder written from the wire description (README) ----

const (
	refOK   = 0
	refMore = 1
	refBad  = 2
)

// refVarint: 7-bit little-endian groups, terminated by the first byte < 0x80
// within 10 bytes; 10 continuation bytes => malformed; buffer ends first => need more.
func refVarint(buf []byte, pos int) (status int, npos int, val uint64) {
	for i := 0; i < 10; i++ {
		if pos+i >= len(buf) {
			return refMore, pos, 0
		}
		b := buf[pos+i]
		val |= uint64(b&0x7f) << (7 * uint(i))
		if b < 0x80 {
			return refOK, pos + i + 1, val
		}
	}
	return refBad, pos, 0
}

type refFrame struct {
	kind            uint8
	done, control   bool
	stream, message uint64
	dataPos, length int
}

func refParseFrame(buf []byte) (status int, consumed int, fr refFrame) {
	if len(buf) < 4 {
		return refMore, 0, fr
	}
	c := buf[0]
	fr.done = c&1 != 0
	fr.control = c&0x80 != 0
	fr.kind = (c >> 1) & 0x3f
	pos := 1
	var st int
	var length uint64
	if st, pos, fr.stream = refVarint(buf, pos); st != refOK {
		return st, 0, fr
	}
	if st, pos, fr.message = refVarint(buf, pos); st != refOK {
		return st, 0, fr
	}
	if st, pos, length = refVarint(buf, pos); st != refOK {
		return st, 0, fr
	}
	if length > uint64(len(buf)-pos) {
		return refMore, 0, fr
	}
	fr.dataPos = pos
	fr.length = int(length)
	return refOK, pos + int(length), fr
}

// VerifH_VarintRoundTrip: for every 64-bit x, prefix and tail:
// ReadVarint(AppendVarint(pre, x) ++ tail) == (tail, x, true, nil) and length = ceil(bits/7).
func VerifH_VarintRoundTrip() {
	x := vrt.U64("x")
	pre := vrt.Bytes("pre", 2)
	tail := vrt.Bytes("tail", 2)
	enc := AppendVarint(append([]byte(nil), pre...), x)
	vrt.Assert(len(enc) >= len(pre)+1 && len(enc) <= len(pre)+10, "varint encoding is 1..10 bytes")
	for i := range pre {
		vrt.Assert(enc[i] == pre[i], "AppendVarint keeps the prefix")
	}
	n := len(enc) - len(pre)
	// length is minimal: x < 2^(7n) and (n==1 or x >= 2^(7(n-1)))
	if n < 10 {
		vrt.Assert(x>>(7*uint(n)) == 0, "varint length not too short")
	}
	if n > 1 {
		vrt.Assert(x>>(7*uint(n-1)) != 0, "varint length minimal")
	}
	buf := append(enc[len(pre):], tail...)
	rem, out, ok, err := ReadVarint(buf)
	vrt.Assert(ok && err == nil, "ReadVarint accepts AppendVarint output")
	vrt.Assert(out == x, "varint value round-trips")
	vrt.Assert(len(rem) == len(tail), "ReadVarint consumes exactly the encoding")
	for i := range tail {
		vrt.Assert(rem[i] == tail[i], "ReadVarint remainder is the tail")
	}
	vrt.Cover("varint-rt-end")
	if n == 10 {
		vrt.Cover("varint-rt-10-bytes")
	}
	if n == 1 {
		vrt.Cover("varint-rt-1-byte")
	}
}

// VerifH_VarintRef: for every buffer of <= maxlen bytes ReadVarint agrees with the reference.
func VerifH_VarintRef() {
	buf := vrt.Bytes("buf", vrt.Param("maxlen", 12))
	rem, out, ok, err := ReadVarint(buf)
	st, npos, val := refVarint(buf, 0)
	switch st {
	case refOK:
		vrt.Assert(ok && err == nil, "ReadVarint ok where reference ok")
		vrt.Assert(out == val, "ReadVarint value equals reference")
		vrt.Assert(len(rem) == len(buf)-npos, "ReadVarint consumed equals reference")
		vrt.Cover("varint-ref-ok")
	case refMore:
		vrt.Assert(!ok && err == nil, "ReadVarint need-more where reference need-more")
		vrt.Assert(len(rem) == len(buf), "ReadVarint returns input on need-more")
		vrt.Cover("varint-ref-more")
	case refBad:
		vrt.Assert(!ok && err != nil, "ReadVarint error where reference malformed")
		vrt.Cover("varint-ref-bad")
	}
}

// VerifH_FrameRef: for every buffer of <= maxlen bytes ParseFrame agrees with the
// reference decoder (status, consumed, every field, payload bytes) and does not panic.
func VerifH_FrameRef() {
	buf := vrt.Bytes("buf", vrt.Param("maxlen", 12))
	rem, fr, ok, err := ParseFrame(buf)
	st, consumed, rf := refParseFrame(buf)
	switch st {
	case refOK:
		vrt.Assert(ok && err == nil, "ParseFrame ok where reference ok")
		vrt.Assert(len(rem) == len(buf)-consumed, "ParseFrame remainder length equals reference")
		vrt.Assert(uint8(fr.Kind) == rf.kind && fr.Done == rf.done && fr.Control == rf.control, "ParseFrame control byte fields equal reference")
		vrt.Assert(fr.ID.Stream == rf.stream && fr.ID.Message == rf.message, "ParseFrame ids equal reference")
		vrt.Assert(len(fr.Data) == rf.length, "ParseFrame payload length equals reference")
		for i := range fr.Data {
			vrt.Assert(fr.Data[i] == buf[rf.dataPos+i], "ParseFrame payload bytes equal reference")
		}
		for i := range rem {
			vrt.Assert(rem[i] == buf[consumed+i], "ParseFrame remainder bytes equal reference")
		}
		vrt.Cover("frame-ref-ok")
		if rf.length > 0 {
			vrt.Cover("frame-ref-ok-payload")
		}
	case refMore:
		vrt.Assert(!ok && err == nil, "ParseFrame need-more where reference need-more")
		vrt.Assert(len(rem) == len(buf), "ParseFrame returns input on need-more")
		vrt.Cover("frame-ref-more")
	case refBad:
		vrt.Assert(!ok && err != nil, "ParseFrame error where reference malformed")
		vrt.Assert(len(rem) == len(buf), "ParseFrame returns input on error")
		vrt.Cover("frame-ref-bad")
	}
}

// VerifH_FrameRefOneLong: as VerifH_FrameRef but structured so that one of the three
// varints (chosen symbolically) may use its full 10 bytes while the other two are single
// bytes; buffer up to 3+10+tail bytes. Covers the 64-bit ranges of every header field.
func VerifH_FrameRefOneLong() {
	buf := vrt.Bytes("buf", 13+vrt.Param("tail", 2))
	which := vrt.Int("which")
	vrt.Assume(which >= 0 && which <= 2)
	vrt.Assume(len(buf) >= 4)
	// the two short varints are single bytes
	pos := 1
	for f := 0; f < 3; f++ {
		if f != which {
			vrt.Assume(pos < len(buf) && buf[pos] < 0x80)
			pos++
		} else {
			// skip the long one according to the reference
			st, np, _ := refVarint(buf, pos)
			if st != refOK {
				break
			}
			pos = np
		}
	}
	rem, fr, ok, err := ParseFrame(buf)
	st, consumed, rf := refParseFrame(buf)
	switch st {
	case refOK:
		vrt.Assert(ok && err == nil, "ParseFrame ok where reference ok")
		vrt.Assert(len(rem) == len(buf)-consumed, "ParseFrame remainder length equals reference")
		vrt.Assert(uint8(fr.Kind) == rf.kind && fr.Done == rf.done && fr.Control == rf.control, "ParseFrame control byte fields equal reference")
		vrt.Assert(fr.ID.Stream == rf.stream && fr.ID.Message == rf.message, "ParseFrame ids equal reference")
		vrt.Assert(len(fr.Data) == rf.length, "ParseFrame payload length equals reference")
		vrt.Cover("onelong-ok")
	case refMore:
		vrt.Assert(!ok && err == nil, "ParseFrame need-more where reference need-more")
		vrt.Assert(len(rem) == len(buf), "ParseFrame returns input on need-more")
		vrt.Cover("onelong-more")
	case refBad:
		vrt.Assert(!ok && err != nil, "ParseFrame error where reference malformed")
		vrt.Cover("onelong-bad")
	}
}

// VerifH_FrameRoundTrip: for every frame (6-bit kind, 64-bit ids, flags, payload <= maxdata)
// and tail: ParseFrame(AppendFrame(pre, fr) ++ tail) == (tail, fr, true, nil).
func VerifH_FrameRoundTrip() {
	var fr Frame
	k := vrt.U8("kind")
	vrt.Assume(k < 64)
	fr.Kind = Kind(k)
	fr.ID.Stream = vrt.U64("stream")
	fr.ID.Message = vrt.U64("message")
	fr.Done = vrt.Bool("done")
	fr.Control = vrt.Bool("control")
	fr.Data = vrt.Bytes("data", vrt.Param("maxdata", 3))
	pre := vrt.Bytes("pre", 1)
	tail := vrt.Bytes("tail", 2)

	enc := AppendFrame(append([]byte(nil), pre...), fr)
	for i := range pre {
		vrt.Assert(enc[i] == pre[i], "AppendFrame keeps the prefix")
	}
	// wire layout of the control byte
	c := enc[len(pre)]
	vrt.Assert(c&1 != 0 == fr.Done && c&0x80 != 0 == fr.Control && (c>>1)&0x3f == k, "control byte layout")
	buf := append(enc[len(pre):], tail...)
	vrt.Assume(len(buf) >= 4) // shorter inputs are 'need more' by definition (covered by FrameRef)
	rem, got, ok, err := ParseFrame(buf)
	vrt.Assert(ok && err == nil, "ParseFrame accepts AppendFrame output")
	vrt.Assert(got.Kind == fr.Kind && got.Done == fr.Done && got.Control == fr.Control, "flags and kind round-trip")
	vrt.Assert(got.ID == fr.ID, "ids round-trip")
	vrt.Assert(len(got.Data) == len(fr.Data), "payload length round-trips")
	for i := range fr.Data {
		vrt.Assert(got.Data[i] == fr.Data[i], "payload bytes round-trip")
	}
	vrt.Assert(len(rem) == len(tail), "ParseFrame consumes exactly the encoded bytes")
	for i := range tail {
		vrt.Assert(rem[i] == tail[i], "remainder is the tail")
	}
	vrt.Cover("frame-rt-end")
}

// VerifH_FramePrefixStability: an accepted frame is still accepted (same frame, remainder
// extended) when more bytes follow; an error stays an error; need-more is only reported
// for inputs that some extension turns into an accepted frame or that stay need-more
// (never for inputs the reference calls malformed).
func VerifH_FramePrefixStability() {
	n := vrt.Param("maxlen", 10)
	full := vrt.Bytes("buf", n)
	cut := vrt.Int("cut")
	vrt.Assume(cut >= 0 && cut <= len(full))
	short := full[:cut]
	rem1, fr1, ok1, err1 := ParseFrame(short)
	rem2, fr2, ok2, err2 := ParseFrame(full)
	if ok1 {
		vrt.Assert(ok2 && err2 == nil, "accepted prefix stays accepted")
		vrt.Assert(fr1.ID == fr2.ID && fr1.Kind == fr2.Kind && fr1.Done == fr2.Done && fr1.Control == fr2.Control && len(fr1.Data) == len(fr2.Data), "same frame after extension")
		vrt.Assert(len(rem2) == len(rem1)+len(full)-cut, "remainder extended by the new bytes")
		vrt.Cover("prefix-ok")
	} else if err1 != nil {
		vrt.Assert(!ok2 && err2 != nil, "malformed prefix stays malformed")
		vrt.Cover("prefix-bad")
	} else {
		vrt.Cover("prefix-more")
		if ok2 {
			vrt.Cover("prefix-more-then-ok")
		}
	}
	_ = rem1
}

// VerifH_Split: SplitN delivers frames whose payloads concatenate to the data, only the
// last is done, each at most n bytes when n > 0, at least one frame; SplitData halves join.
func VerifH_Split() {
	data := vrt.Bytes("data", vrt.Param("maxdata", 6))
	n := vrt.Int("n")
	vrt.Assume(n >= -2 && n <= 8)
	pkt := Packet{Data: data, ID: ID{Stream: vrt.U64("s"), Message: vrt.U64("m")}, Kind: Kind(vrt.U8("kind")), Control: vrt.Bool("control")}
	var got []byte
	frames := 0
	lastDone := false
	err := SplitN(pkt, n, func(fr Frame) error {
		vrt.Assert(!lastDone, "no frame after the done frame")
		vrt.Assert(fr.ID == pkt.ID && fr.Kind == pkt.Kind && fr.Control == pkt.Control, "frame carries the packet's id, kind, control")
		if n > 0 {
			vrt.Assert(len(fr.Data) <= n, "frame payload at most n")
		}
		if frames > 0 || len(data) > 0 {
			vrt.Assert(len(fr.Data) > 0, "no empty frame unless the packet is empty")
		}
		got = append(got, fr.Data...)
		frames++
		lastDone = fr.Done
		return nil
	})
	vrt.Assert(err == nil, "SplitN returns nil when the callback does")
	vrt.Assert(frames >= 1 && lastDone, "at least one frame and the last is done")
	vrt.Assert(len(got) == len(data), "payloads concatenate to the data (length)")
	for i := range data {
		vrt.Assert(got[i] == data[i], "payloads concatenate to the data (bytes)")
	}
	a, b := SplitData(data, n)
	vrt.Assert(len(a)+len(b) == len(data), "SplitData halves join (length)")
	for i := range a {
		vrt.Assert(a[i] == data[i], "SplitData prefix bytes")
	}
	for i := range b {
		vrt.Assert(b[i] == data[len(a)+i], "SplitData suffix bytes")
	}
	vrt.Cover("split-end")
	if frames > 2 {
		vrt.Cover("split-3-frames")
	}
}
