package verifrt

import (
	"fmt"
	"os"
	"time"
)

func timeAfter(seconds int) <-chan time.Time { return time.After(time.Duration(seconds) * time.Second) }

func nativeQuiesce() { time.Sleep(100 * time.Millisecond) }
func nativeYield()   { time.Sleep(time.Millisecond) }

var boundedTimer *time.Timer

// Bounded opens a region that must terminate: under the engine within the given number of
// interpreted instructions (a bounded-termination obligation: running past the bound is a
// violation with this label, not an inconclusive unwinding failure); natively within 10
// seconds. BoundedEnd closes the region. Sequential harnesses only.
func Bounded(label string, steps int) {
	boundedTimer = time.AfterFunc(10*time.Second, func() {
		fmt.Printf("VRT-ASSERT-FAILED %s\n", label)
		os.Exit(1)
	})
}

// BoundedEnd closes the region opened by Bounded.
func BoundedEnd() {
	if boundedTimer != nil {
		boundedTimer.Stop()
		boundedTimer = nil
	}
}
