// Package models holds Go-coded models of library functions that the engine
// substitutes for the real (non-interpretable) implementation.
package models

import (
	"context"
	"sync"
	"time"
)

type strErr struct{ s string }

func (e *strErr) Error() string { return e.s }

// Errorf models fmt.Errorf for the verbs used by drpc: a format that is
// exactly "%s" or "%v" with a string / []byte / error argument yields that
// text; any other format yields the format string itself (opaque message).
func Errorf(format string, args ...interface{}) error {
	return &strErr{s: Sprintf(format, args...)}
}

func Sprintf(format string, args ...interface{}) string {
	if (format == "%s" || format == "%v") && len(args) == 1 {
		switch v := args[0].(type) {
		case string:
			return v
		case []byte:
			return string(v)
		case error:
			return v.Error()
		}
	}
	if len(args) == 0 {
		// fmt with no operands: "%%" prints "%", any other directive prints
		// "%!v(MISSING)"-style noise. A format without '%' is returned as is.
		for i := 0; i < len(format); i++ {
			if format[i] == '%' {
				return format + "%!(MISSING)"
			}
		}
	}
	return format
}

// ErrsError models (*errs.errorT).Error(), i.e. fmt.Sprintf("%v", e) through
// errorT.Format without the '+' flag: "<class>: <cause text>" (class and
// separator omitted when the class is empty, text omitted when empty).
func ErrsError(e interface {
	Name() (string, bool)
	Cause() error
}) string {
	out := ""
	sep := ""
	if name, ok := e.Name(); ok && name != "" {
		out = name
		sep = ": "
	}
	if text := e.Cause().Error(); len(text) > 0 {
		out += sep + text
	}
	return out
}

// ---- context ----

type valueCtx struct {
	context.Context
	key, val interface{}
}

func (c *valueCtx) Value(key interface{}) interface{} {
	if c.key == key {
		return c.val
	}
	return c.Context.Value(key)
}

// WithValue models context.WithValue (without the reflect-based comparability check).
func WithValue(parent context.Context, key, val interface{}) context.Context {
	return &valueCtx{parent, key, val}
}

// ErrorsIs models errors.Is for comparable targets: identity along the Unwrap chain.
func ErrorsIs(err, target error) bool {
	for i := 0; i < 100 && err != nil; i++ {
		if err == target {
			return true
		}
		if x, ok := err.(interface{ Is(error) bool }); ok && x.Is(target) {
			return true
		}
		u, ok := err.(interface{ Unwrap() error })
		if !ok {
			return false
		}
		err = u.Unwrap()
	}
	return false
}

// NotConnReset models drpcmanager.isConnectionReset for harness errors (never *net.OpError).
func NotConnReset(err error) bool { return false }

// cancelCtx models context.WithCancel: a child that is cancelled by its cancel func or
// when the parent is done (propagation by a watcher goroutine, as the stdlib does for
// foreign parent types).
type cancelCtx struct {
	context.Context
	mu   sync.Mutex
	done chan struct{}
	err  error
}

func (c *cancelCtx) Done() <-chan struct{} { return c.done }

func (c *cancelCtx) Err() error {
	c.mu.Lock()
	defer c.mu.Unlock()
	return c.err
}

func (c *cancelCtx) cancel(err error) {
	c.mu.Lock()
	defer c.mu.Unlock()
	if c.err != nil {
		return
	}
	c.err = err
	close(c.done)
}

func WithCancel(parent context.Context) (context.Context, context.CancelFunc) {
	c := &cancelCtx{Context: parent, done: make(chan struct{})}
	if pd := parent.Done(); pd != nil {
		go func() {
			select {
			case <-pd:
				c.cancel(parent.Err())
			case <-c.done:
			}
		}()
	}
	return c, func() { c.cancel(context.Canceled) }
}

// NotTemporary models drpcserver.isTemporary for harness errors (none implements Temporary()).
func NotTemporary(err error) bool { return false }

// ---- timers ----

type timerState struct{ fired, stopped bool }

var timers = map[*time.Timer]*timerState{}

// AfterFunc models time.AfterFunc: the callback runs on its own goroutine at an arbitrary
// later moment (the duration is not interpreted) unless stopped before it started.
func AfterFunc(d time.Duration, f func()) *time.Timer {
	t := new(time.Timer)
	st := &timerState{}
	timers[t] = st
	go func() {
		if st.stopped {
			return
		}
		st.fired = true
		f()
	}()
	return t
}

// TimerStop models (*time.Timer).Stop: false iff the callback has already started (or the
// timer was already stopped).
func TimerStop(t *time.Timer) bool {
	st := timers[t]
	if st == nil || st.fired || st.stopped {
		return false
	}
	st.stopped = true
	return true
}
