package drpcconn

import (
	"context"

	"storj.io/drpc/drpcmanager"
	"storj.io/drpc/drpcmetadata"
	"storj.io/drpc/drpcwire"
	vrt "storj.io/drpc/internal/verifrt"
	"storj.io/drpc/internal/verifrt/hx"
)

// VerifH_ConcurrentCallsMetadata: two goroutines start a call concurrently on one
// connection, each with its own metadata (or none). On the wire every invoke is preceded,
// under the same stream id, by exactly the metadata attached to that call's context - never
// by the other call's - and a call without metadata sends no metadata packet.
func VerifH_ConcurrentCallsMetadata() {
	tr := &hx.Transport{}
	conn := NewWithOptions(tr, Options{Manager: drpcmanager.Options{SoftCancel: vrt.Param("soft", 0) == 1}})
	enc := hx.ByteEnc{}
	for s := uint64(1); s <= 2; s++ {
		tr.Feed(hx.Pkt(drpcwire.KindMessage, s, 1, false, []byte{byte(0x40 + s)}))
		tr.Feed(hx.Pkt(drpcwire.KindCloseSend, s, 2, false, nil))
	}
	// 0: both calls carry metadata of equal encoded length; 1: the second call's is
	// shorter; 2: only the first call carries metadata
	cfg := vrt.Choice("cfg", 3)
	with := [2]bool{true, cfg != 2}
	vals := [2]string{"AAAA", "BBBB"}
	if cfg == 1 {
		vals[1] = "B"
	}
	rpcs := [2]string{"rpc0", "rpc1"}
	var done [2]bool
	var errs [2]error
	unary := vrt.Param("unary", 0) == 1
	call := func(i int) {
		ctx := hx.NewCtx()
		var cctx context.Context = ctx
		if with[i] {
			cctx = drpcmetadata.Add(ctx, "who", vals[i])
		}
		if unary {
			in := []byte{byte(i)}
			var out []byte
			errs[i] = conn.Invoke(cctx, rpcs[i], enc, &in, &out)
		} else {
			st, err := conn.NewStream(cctx, rpcs[i], enc)
			errs[i] = err
			if err == nil {
				var out []byte
				_ = st.MsgRecv(&out, enc)
				_ = st.Close()
			}
		}
		done[i] = true
	}
	go call(0)
	go call(1)
	vrt.Quiesce()
	vrt.Assert(done[0] && done[1], "both callers complete")
	vrt.Assert(errs[0] == nil && errs[1] == nil, "both calls succeed")
	pkts, ok := hx.ParseOut(tr.Out)
	vrt.Assert(ok, "client output is well-formed")
	for i := 0; i < 2; i++ {
		// find the invoke of call i and the metadata packets sent under its stream id
		sid := uint64(0)
		for _, p := range pkts {
			if p.Kind == drpcwire.KindInvoke && string(p.Data) == rpcs[i] {
				sid = p.Sid
			}
		}
		vrt.Assert(sid != 0, "every call's invoke appears on the wire")
		nmeta := 0
		before := true
		for _, p := range pkts {
			if p.Sid != sid {
				continue
			}
			if p.Kind == drpcwire.KindInvoke {
				before = false
			}
			if p.Kind == drpcwire.KindInvokeMetadata {
				nmeta++
				vrt.Assert(before, "metadata precedes the invoke it belongs to")
				md, err := drpcmetadata.Decode(p.Data)
				vrt.Assert(err == nil && len(md) == 1 && md["who"] == vals[i], "the metadata sent with a call is exactly the metadata attached to that call's context")
			}
		}
		want := 0
		if with[i] {
			want = 1
		}
		vrt.Assert(nmeta == want, "a call sends its metadata exactly once, and none when it has none")
	}
	vrt.Cover("conc-meta-end")
	conn.Close()
}
