package main

import (
	"fmt"
	"go/token"
	"go/types"

	"golang.org/x/tools/go/ssa"
)

type FnInfo struct {
	fn    *ssa.Function
	index map[ssa.Value]int
	n     int
}

type Deferred struct {
	fn   Value // FuncV, or nil for invoke
	args []Value
	call *ssa.CallCommon
}

type Frame struct {
	fn      *ssa.Function
	info    *FnInfo
	block   *ssa.BasicBlock
	prev    *ssa.BasicBlock
	pc      int
	regs    []Value
	defers  []Deferred
	result  Value // pending return value while running defers
	retDone bool
	// native continuation: if non-nil, called with the callee's result instead of storing into regs
	inDefers bool
	wrap     func(st *State, r Value) Value // transforms the result on return (reflect.Value.Call)
}

type Thread struct {
	id       int
	frames   []*Frame
	finished bool
	granted  bool // scheduler already approved the pending visible op
	started  bool
	// cond-wait bookkeeping
	waitCond  string // key of cond var the thread waits on ("" = none)
	signaled  bool
	condPhase int // 0 = not in wait, 1 = unlocked+waiting for signal, 2 = reacquiring
	// channel rendez-vous: result delivered by the partner
	wake      *Wake
	parked    *ParkInfo
	name      string
	retval    Value
	startFn   Value
	vc        []int
	startArgs []Value
}

type Wake struct {
	caseIdx int
	val     Value
	ok      bool
}

type ParkInfo struct {
	cases []ChanCase
}

type ChanCase struct {
	ch   int // chan object id (0 = nil chan)
	send bool
	val  Value
}

type SchedEvent struct {
	Thread  int    `json:"thread"`
	Op      string `json:"op"`
	Pos     string `json:"pos"`
	Preempt bool   `json:"preempt,omitempty"`
}

type State struct {
	heap          []Value
	threads       []*Thread
	cur           int
	pc            *PC
	known         map[int]bool
	conc          map[int]uint64
	budget        int
	steps         int
	boundLabel    string // vrt.Bounded region: label of the termination obligation
	boundDeadline int    // value of steps at which it is violated
	tags          []string
	covers        []string
	trace         []SchedEvent
	names         map[string]int
	globals       map[*ssa.Global]int
	vars          []*Term // symbolic inputs created on this path (in order)
	notes         []string
	violatedHere  bool
	witness       map[string]uint64
	shared        map[int]bool
	syncVC        map[string][]int
	shadow        map[int]*raceInfo
	libArr        map[int]bool
}

func (st *State) clone() *State {
	ns := &State{
		heap:       append([]Value(nil), st.heap...),
		cur:        st.cur,
		pc:         st.pc,
		budget:     st.budget,
		steps:      st.steps,
		boundLabel: st.boundLabel, boundDeadline: st.boundDeadline,
		tags:    append([]string(nil), st.tags...),
		covers:  append([]string(nil), st.covers...),
		trace:   append([]SchedEvent(nil), st.trace...),
		vars:    append([]*Term(nil), st.vars...),
		notes:   append([]string(nil), st.notes...),
		witness: st.witness,
	}
	if len(st.syncVC) > 0 {
		ns.syncVC = make(map[string][]int, len(st.syncVC))
		for k, v := range st.syncVC {
			ns.syncVC[k] = v
		}
	}
	if len(st.shadow) > 0 {
		ns.shadow = make(map[int]*raceInfo, len(st.shadow))
		for k, v := range st.shadow {
			ns.shadow[k] = v
		}
	}
	if len(st.libArr) > 0 {
		ns.libArr = make(map[int]bool, len(st.libArr))
		for k, v := range st.libArr {
			ns.libArr[k] = v
		}
	}
	if len(st.shared) > 0 {
		ns.shared = make(map[int]bool, len(st.shared))
		for k, v := range st.shared {
			ns.shared[k] = v
		}
	}
	ns.known = make(map[int]bool, len(st.known))
	for k, v := range st.known {
		ns.known[k] = v
	}
	ns.conc = make(map[int]uint64, len(st.conc))
	for k, v := range st.conc {
		ns.conc[k] = v
	}
	ns.names = make(map[string]int, len(st.names))
	for k, v := range st.names {
		ns.names[k] = v
	}
	ns.globals = make(map[*ssa.Global]int, len(st.globals))
	for k, v := range st.globals {
		ns.globals[k] = v
	}
	ns.threads = make([]*Thread, len(st.threads))
	for i, t := range st.threads {
		nt := *t
		nt.vc = append([]int(nil), t.vc...)
		nt.frames = make([]*Frame, len(t.frames))
		for j, f := range t.frames {
			nf := *f
			nf.regs = append([]Value(nil), f.regs...)
			nf.defers = append([]Deferred(nil), f.defers...)
			nt.frames[j] = &nf
		}
		if t.wake != nil {
			w := *t.wake
			nt.wake = &w
		}
		if t.parked != nil {
			p := *t.parked
			nt.parked = &p
		}
		ns.threads[i] = &nt
	}
	return ns
}

func (st *State) alloc(v Value) int {
	st.heap = append(st.heap, v)
	return len(st.heap) - 1
}

func (st *State) thread() *Thread { return st.threads[st.cur] }

func (t *Thread) top() *Frame { return t.frames[len(t.frames)-1] }

// ---- memory access ----

func getPath(v Value, path []int) Value {
	for _, i := range path {
		switch x := v.(type) {
		case *StructV:
			v = x.f[i]
		case *ArrV:
			v = x.get(i)
		default:
			panic(engErr("getPath: cannot index %T", v))
		}
	}
	return v
}

func setPath(v Value, path []int, nv Value) Value {
	if len(path) == 0 {
		return nv
	}
	i := path[0]
	switch x := v.(type) {
	case *StructV:
		f := append([]Value(nil), x.f...)
		f[i] = setPath(x.f[i], path[1:], nv)
		return &StructV{f: f}
	case *ArrV:
		return x.set(i, setPath(x.get(i), path[1:], nv))
	}
	panic(engErr("setPath: cannot index %T", v))
}

// sliceArr returns the backing array of a slice.
func (st *State) sliceArr(s SliceV) *ArrV {
	if len(s.path) == 0 {
		return st.heap[s.obj].(*ArrV)
	}
	return getPath(st.heap[s.obj], s.path).(*ArrV)
}

// setSliceArr replaces the backing array of a slice.
func (st *State) setSliceArr(s SliceV, a *ArrV) {
	if len(s.path) == 0 {
		st.heap[s.obj] = a
		return
	}
	st.heap[s.obj] = setPath(st.heap[s.obj], s.path, a)
}

func (st *State) load(p Ptr) Value {
	if p.obj == 0 {
		panic(goPanic{"nil pointer dereference"})
	}
	v := getPath(st.heap[p.obj], p.path)
	if p.sym != nil {
		panic(engErr("load of symbolic-index pointer must go through Engine.loadPtr"))
	}
	return v
}

func (st *State) store(p Ptr, v Value) {
	if p.obj == 0 {
		panic(goPanic{"nil pointer dereference"})
	}
	st.heap[p.obj] = setPath(st.heap[p.obj], p.path, v)
}

// goPanic is a Go-level runtime panic on the current path.
type goPanic struct{ msg string }

// control-flow signals raised inside instruction execution
type forkCond struct {
	c   *Term
	pol bool // polarity satisfied by the current witness
}
type forkVals struct {
	t    *Term
	vals []uint64
}
type forkChoice struct {
	n   int
	key string
}
type pathEnd struct {
	kind string // "assume", "exit"
}
type inconclusive struct{ msg string }

func posOf(prog *ssa.Program, p token.Pos) string {
	if !p.IsValid() {
		return "?"
	}
	pp := prog.Fset.Position(p)
	return fmt.Sprintf("%s:%d", pp.Filename, pp.Line)
}

func elemType(t types.Type) types.Type {
	switch u := t.Underlying().(type) {
	case *types.Pointer:
		return u.Elem()
	case *types.Slice:
		return u.Elem()
	case *types.Array:
		return u.Elem()
	case *types.Chan:
		return u.Elem()
	case *types.Map:
		return u.Elem()
	}
	panic(engErr("elemType of %v", t))
}
