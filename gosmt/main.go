package main

import (
	"encoding/json"
	"flag"
	"fmt"
	"os"
	"path/filepath"
	"regexp"
	"sort"
	"strings"
	"sync"
	"time"

	"golang.org/x/tools/go/packages"
	"golang.org/x/tools/go/ssa"
	"golang.org/x/tools/go/ssa/ssautil"
)

const modPath = "storj.io/drpc"

type Loaded struct {
	prog         *ssa.Program
	pkgs         map[string]*ssa.Package // by import path
	models       *ssa.Package
	order        []*ssa.Package    // init order (dependencies first) restricted to initialisable pkgs
	overlayFiles map[string]string // virtual path -> real path
}

func repoDir() string {
	if d := os.Getenv("VERIF_REPO"); d != "" {
		return d
	}
	return "/repo"
}

func verifDir() string {
	if d := os.Getenv("VERIF_DIR"); d != "" {
		return d
	}
	return "/verif"
}

// buildOverlay maps harness files into the repo tree.
func buildOverlay() (map[string][]byte, map[string]string, error) {
	ov := map[string][]byte{}
	real := map[string]string{}
	hdir := filepath.Join(verifDir(), "harness")
	repo := repoDir()
	err := filepath.Walk(hdir, func(p string, info os.FileInfo, err error) error {
		if err != nil {
			return err
		}
		if info.IsDir() || !strings.HasSuffix(p, ".go") {
			return nil
		}
		rel, _ := filepath.Rel(hdir, p)
		parts := strings.Split(rel, string(filepath.Separator))
		var target string
		switch parts[0] {
		case "vrt":
			target = filepath.Join(append([]string{repo, "internal", "verifrt"}, parts[1:]...)...)
		case "models":
			target = filepath.Join(append([]string{repo, "internal", "verifrt", "models"}, parts[1:]...)...)
		case "drpc017":
			target = filepath.Join(append([]string{repo, "internal", "verif017"}, parts[1:]...)...)
		default:
			dir := filepath.Join(append([]string{repo}, parts[:len(parts)-1]...)...)
			target = filepath.Join(dir, "zz_verif_"+parts[len(parts)-1])
		}
		b, err := os.ReadFile(p)
		if err != nil {
			return err
		}
		ov[target] = b
		real[target] = p
		return nil
	})
	return ov, real, err
}

func load(pkgDirs []string) (*Loaded, error) {
	ov, real, err := buildOverlay()
	if err != nil {
		return nil, err
	}
	cfg := &packages.Config{
		Mode:    packages.LoadAllSyntax,
		Dir:     repoDir(),
		Overlay: ov,
		Env:     append(os.Environ(), "GOFLAGS=-mod=mod", "GOPROXY=off", "GOSUMDB=off", "GOTOOLCHAIN=local"),
	}
	var patterns []string
	for _, d := range pkgDirs {
		patterns = append(patterns, modPath+"/"+d)
	}
	patterns = append(patterns, modPath+"/internal/verifrt/models")
	pkgs, err := packages.Load(cfg, patterns...)
	if err != nil {
		return nil, err
	}
	var errs []string
	packages.Visit(pkgs, nil, func(p *packages.Package) {
		for _, e := range p.Errors {
			errs = append(errs, e.Error())
		}
	})
	if len(errs) > 0 {
		if len(errs) > 10 {
			errs = errs[:10]
		}
		return nil, fmt.Errorf("package load errors:\n%s", strings.Join(errs, "\n"))
	}
	prog, _ := ssautil.AllPackages(pkgs, ssa.InstantiateGenerics)
	prog.Build()
	l := &Loaded{prog: prog, pkgs: map[string]*ssa.Package{}, overlayFiles: real}
	for _, p := range prog.AllPackages() {
		l.pkgs[p.Pkg.Path()] = p
	}
	l.models = l.pkgs[modPath+"/internal/verifrt/models"]
	// init order: DFS over imports
	seen := map[string]bool{}
	var visit func(p *packages.Package)
	visit = func(p *packages.Package) {
		if seen[p.PkgPath] {
			return
		}
		seen[p.PkgPath] = true
		var imps []string
		for k := range p.Imports {
			imps = append(imps, k)
		}
		sort.Strings(imps)
		for _, k := range imps {
			visit(p.Imports[k])
		}
		if initAllowed(p.PkgPath) {
			if sp := l.pkgs[p.PkgPath]; sp != nil {
				l.order = append(l.order, sp)
			}
		}
	}
	for _, p := range pkgs {
		visit(p)
	}
	return l, nil
}

// packages whose initialisers are executed by the engine
func initAllowed(path string) bool {
	if strings.HasPrefix(path, modPath) || path == "github.com/zeebo/errs" {
		return true
	}
	switch path {
	case "errors", "io", "context", "unicode/utf8", "math/bits", "encoding/binary", "strconv", "io/fs", "net/http", "time":
		return path == "io" || path == "context"
	case "encoding/base64":
		return true
	}
	return false
}

type HarnessSpec struct {
	Pkg      string         `json:"pkg"` // dir relative to module root
	Fn       string         `json:"fn"`
	K        int            `json:"K"`
	Fine     bool           `json:"fine"`
	Params   map[string]int `json:"params"`
	TimeoutS int            `json:"timeout_s"`
	Tier     string         `json:"tier"` // "", "quick", "thorough": restrict to tier
	Solver   string         `json:"solver"`
	Workers  int            `json:"workers"`
}

func runOne(l *Loaded, hs HarnessSpec, seed int) *HarnessResult {
	cfg := DefaultConfig()
	cfg.K = hs.K
	cfg.Fine = hs.Fine
	cfg.Seed = seed
	cfg.Solver = hs.Solver
	if s := os.Getenv("VERIF_SOLVER"); s != "" {
		cfg.Solver = s
	}
	if hs.TimeoutS > 0 {
		cfg.Deadline = time.Now().Add(time.Duration(hs.TimeoutS) * time.Second)
	}
	cfg.Workers = hs.Workers
	if v, ok := hs.Params["$maxsteps"]; ok {
		cfg.MaxSteps = v
	}
	if v, ok := hs.Params["$maxalloc"]; ok {
		cfg.MaxAlloc = v
	}
	if v, ok := hs.Params["$race"]; ok {
		cfg.Race = v != 0
	}
	if v, ok := hs.Params["$dedup"]; ok {
		cfg.Dedup = v != 0
	}
	if v, ok := hs.Params["$maporders"]; ok {
		cfg.MapOrders = v != 0
	}
	e, err := NewEngine(l.prog, cfg)
	if err != nil {
		return &HarnessResult{Harness: hs.Fn, Inconclusive: []string{err.Error()}}
	}
	e.params = hs.Params
	e.initOK = func(p *ssa.Package) bool { return initAllowed(p.Pkg.Path()) }
	e.installSubst(l)
	pkg := l.pkgs[modPath+"/"+hs.Pkg]
	if pkg == nil {
		return &HarnessResult{Harness: hs.Fn, Inconclusive: []string{"package not loaded: " + hs.Pkg}}
	}
	fn := pkg.Func(hs.Fn)
	if fn == nil {
		return &HarnessResult{Harness: hs.Fn, Inconclusive: []string{"harness not found: " + hs.Fn}}
	}
	var res *HarnessResult
	func() {
		defer func() {
			if r := recover(); r != nil {
				res = e.res
				if res == nil {
					res = &HarnessResult{Harness: hs.Fn}
				}
				res.Inconclusive = append(res.Inconclusive, fmt.Sprintf("engine crash: %v", r))
				e.solver.Close()
			}
		}()
		res = e.RunHarness(fn, l.order)
	}()
	return res
}

func main() {
	if len(os.Args) < 2 {
		fmt.Fprintln(os.Stderr, "usage: gosmt run|check ...")
		os.Exit(2)
	}
	switch os.Args[1] {
	case "run":
		cmdRun(os.Args[2:])
	case "check":
		cmdCheck(os.Args[2:])
	default:
		fmt.Fprintln(os.Stderr, "unknown command")
		os.Exit(2)
	}
}

func cmdRun(args []string) {
	fs := flag.NewFlagSet("run", flag.ExitOnError)
	pkg := fs.String("pkg", "drpcwire", "package dir")
	fnre := fs.String("fn", "^VerifH_", "harness function regexp")
	K := fs.Int("K", 0, "preemption bound")
	fine := fs.Bool("fine", false, "fine-grained interleaving")
	params := fs.String("params", "", "k=v,k=v")
	timeout := fs.Int("timeout", 120, "seconds")
	verbose := fs.Bool("v", false, "print full result json")
	par := fs.Int("j", 8, "parallel harnesses")
	workers := fs.Int("w", 1, "workers per harness")
	fs.Parse(args)
	l, err := load([]string{*pkg})
	if err != nil {
		fmt.Fprintln(os.Stderr, err)
		os.Exit(2)
	}
	re := regexp.MustCompile(*fnre)
	p := l.pkgs[modPath+"/"+*pkg]
	var names []string
	for name, m := range p.Members {
		if _, ok := m.(*ssa.Function); ok && re.MatchString(name) && strings.HasPrefix(name, "VerifH_") {
			names = append(names, name)
		}
	}
	sort.Strings(names)
	pm := map[string]int{}
	if *params != "" {
		for _, kv := range strings.Split(*params, ",") {
			var k string
			var v int
			parts := strings.SplitN(kv, "=", 2)
			k = parts[0]
			fmt.Sscanf(parts[1], "%d", &v)
			pm[k] = v
		}
	}
	var wg sync.WaitGroup
	sem := make(chan struct{}, *par)
	results := make([]*HarnessResult, len(names))
	for i, n := range names {
		wg.Add(1)
		go func(i int, n string) {
			defer wg.Done()
			sem <- struct{}{}
			defer func() { <-sem }()
			results[i] = runOne(l, HarnessSpec{Pkg: *pkg, Fn: n, K: *K, Fine: *fine, Params: pm, TimeoutS: *timeout, Workers: *workers}, 0)
		}(i, n)
	}
	wg.Wait()
	bad := false
	for _, r := range results {
		printSummary(r)
		if *verbose {
			b, _ := json.MarshalIndent(r, "", " ")
			fmt.Println(string(b))
		}
		if len(r.Violations) > 0 || len(r.Inconclusive) > 0 {
			bad = true
		}
	}
	if bad {
		os.Exit(1)
	}
}

func printSummary(r *HarnessResult) {
	status := "OK"
	if len(r.Violations) > 0 {
		status = "VIOLATED"
	} else if len(r.Inconclusive) > 0 {
		status = "INCONCLUSIVE"
	}
	fmt.Printf("%-40s %-12s paths=%d pruned=%d oblig=%d/%d covers=%d queries=%d (sat %d unsat %d) solver=%.1fs wall=%.1fs threads=%d\n",
		r.Harness, status, r.Paths, r.Pruned, r.Discharged, r.Obligations, len(r.Covers), r.Queries, r.Sat, r.Unsat, r.SolverTime, r.Wall, r.MaxThreads)
	for _, v := range r.Violations {
		fmt.Printf("    %s: %s @ %s tags=%v\n      model=%v\n", v.Kind, v.Label, v.Pos, v.Tags, compactModel(v.Model))
		for _, n := range v.Notes {
			fmt.Printf("      note: %s\n", n)
		}
		if len(v.Trace) > 0 {
			fmt.Printf("      trace: %v\n", v.Trace)
		}
		if v.Stack != "" {
			fmt.Printf("      stack: %s\n", v.Stack)
		}
	}
	for _, m := range r.Inconclusive {
		fmt.Printf("    inconclusive: %s\n", m)
	}
}

func compactModel(m map[string]uint64) string {
	var ks []string
	for k := range m {
		ks = append(ks, k)
	}
	sort.Strings(ks)
	var sb strings.Builder
	for i, k := range ks {
		if i > 60 {
			sb.WriteString(" ...")
			break
		}
		fmt.Fprintf(&sb, " %s=%d", k, m[k])
	}
	return sb.String()
}
