module verif/mutate

go 1.23
